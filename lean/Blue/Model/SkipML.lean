import Blue.Model.SkipList
/-! `skipfree::SkipList` with all its levels, and its iterator, as a small-step transition system:
    one step per atomic access (`get_next`, `set_next`, `cas_next`), plus one for `new_node`.
    Sequentially consistent interleaving of the threads' accesses is assumed.

    A node carries its whole tower (`pointers`); node 0 is the head (tower of `MAX_HEIGHT`).
    An inserting thread runs `find_greater_or_equal_and_pointers` load by load, allocates, and then
    per level stores its successor, tries the CAS on the predecessor, and re-advances on failure —
    exactly the loops of `SkipList::insert`.  A reading thread owns one iterator (`pos`: `none` =
    null pointer, `some 0` = the head, both "not valid") and runs `find_greater_or_equal`
    (`seek`, `contains`), `find_less_than` / `find_last` (`prev`), or the single load of `next` /
    `seek_to_first`.  The two assertions of the code that can fire are the state `panicked`. -/
namespace Blue.SkipML
open Blue.SkipList (Node)

structure MNode where
  key : Nat
  /-- `pointers`, one per level of this node's tower -/
  nexts : List (Option Nat)
deriving DecidableEq, Repr

def mkey (heap : List MNode) (n : Nat) : Nat := (heap[n]?.map (·.key)).getD 0

def towerNext (nd : MNode) (lvl : Nat) : Option Nat := (nd.nexts[lvl]?).getD none

/-- `get_next(n, lvl)` -/
def mnext (heap : List MNode) (lvl n : Nat) : Option Nat :=
  match heap[n]? with
  | some nd => towerNext nd lvl
  | none => none

/-- `set_next(n, lvl, nx)` (also the effect of a successful `cas_next`) -/
def msetNext (heap : List MNode) (lvl n : Nat) (nx : Option Nat) : List MNode :=
  match heap[n]? with
  | some nd => heap.set n { nd with nexts := nd.nexts.set lvl nx }
  | none => heap

/-- the level-`lvl` view of the heap as a heap of the level-0 model -/
def proj (lvl : Nat) (heap : List MNode) : List Node := heap.map fun nd => ⟨nd.key, towerNext nd lvl⟩

inductive PC where
  | idle
  /-- `find_greater_or_equal_and_pointers`: the next step loads `x.next[lvl]` -/
  | search (k h x lvl : Nat) (prev : List Nat) (obs : List (Option Nat))
  /-- `new_node(key, value, h)` -/
  | alloc (k h : Nat) (prev : List Nat) (obs : List (Option Nat))
  /-- `set_next(nd, idx, obs[idx])`; `k` is the node's (immutable) key -/
  | setNext (nd k idx h : Nat) (prev : List Nat) (obs : List (Option Nat))
  /-- `cas_next(prev[idx], idx, obs[idx], nd)` -/
  | cas (nd k idx h : Nat) (prev : List Nat) (obs : List (Option Nat))
  /-- the `'advancing` loop after a failed CAS: the next step loads `prev[idx].next[idx]` -/
  | adv (nd k idx h : Nat) (prev : List Nat) (obs : List (Option Nat))
  /-- `find_greater_or_equal` for `seek` (`c = false`) or `contains` (`c = true`) -/
  | geq (k x lvl : Nat) (c : Bool)
  /-- `find_less_than` -/
  | lt (k x lvl : Nat)
  /-- `find_last` -/
  | last (x lvl : Nat)
  /-- the single load of `next()` / `seek_to_first()` -/
  | nxt (x : Nat)
  | panicked
deriving DecidableEq, Repr

structure Th where
  pc : PC := .idle
  /-- the iterator's `node` -/
  pos : Option Nat := none
  /-- what the last `contains` answered -/
  found : Bool := false
deriving DecidableEq, Repr

structure St where
  /-- `MAX_HEIGHT` -/
  H : Nat
  heap : List MNode
  ths : List Th
  /-- ghost: keys whose level-0 CAS succeeded, newest first -/
  inserted : List Nat
  /-- ghost: keys whose `insert` has returned -/
  returned : List Nat
deriving DecidableEq, Repr

def init (H nthreads : Nat) : St :=
  ⟨H, [⟨0, List.replicate H none⟩], List.replicate nthreads {}, [], []⟩

def th (s : St) (i : Nat) : Th := s.ths.getD i {}
def setTh (s : St) (i : Nat) (t : Th) : St := { s with ths := s.ths.set i t }
def setPc (s : St) (i : Nat) (pc : PC) : St := setTh s i { th s i with pc := pc }

/-- `key_is_after_node(k, next)` -/
def after (heap : List MNode) (k : Nat) : Option Nat → Bool
  | some n => decide (mkey heap n < k)
  | none => false

/-- the key an inserting thread is inserting -/
def keyOfPc : PC → Option Nat
  | .search k _ _ _ _ _ => some k
  | .alloc k _ _ _ => some k
  | .setNext _ k _ _ _ _ => some k
  | .cas _ k _ _ _ _ => some k
  | .adv _ k _ _ _ _ => some k
  | _ => none

/-- the precondition of `insert` (the property's "distinct keys"), decided: the key is neither
    linked nor being inserted by any thread -/
def insertOk (s : St) (k : Nat) : Bool :=
  !s.inserted.contains k && s.ths.all fun t => keyOfPc t.pc != some k

/-! ### calls: an operation begins on an idle thread (anything else is refused: state unchanged) -/

def callInsert (s : St) (i k h : Nat) : St :=
  if (th s i).pc = .idle ∧ 0 < h ∧ h ≤ s.H ∧ 0 < s.H then
    setPc s i (.search k h 0 (s.H - 1) (List.replicate s.H 0) (List.replicate s.H none))
  else s

def callSeek (s : St) (i k : Nat) : St :=
  if (th s i).pc = .idle ∧ 0 < s.H then setPc s i (.geq k 0 (s.H - 1) false) else s

def callContains (s : St) (i k : Nat) : St :=
  if (th s i).pc = .idle ∧ 0 < s.H then setPc s i (.geq k 0 (s.H - 1) true) else s

def callFirst (s : St) (i : Nat) : St :=
  if (th s i).pc = .idle then setPc s i (.nxt 0) else s

def callLast (s : St) (i : Nat) : St :=
  if (th s i).pc = .idle then setTh s i { th s i with pos := none } else s

/-- `next()`: nothing at the null pointer, else one load -/
def callNext (s : St) (i : Nat) : St :=
  if (th s i).pc = .idle then
    match (th s i).pos with
    | none => s
    | some x => setPc s i (.nxt x)
  else s

/-- `prev()`: `find_last` at the null pointer, nothing at the head, else `find_less_than(key)` -/
def callPrev (s : St) (i : Nat) : St :=
  if (th s i).pc = .idle ∧ 0 < s.H then
    match (th s i).pos with
    | none => setPc s i (.last 0 (s.H - 1))
    | some 0 => s
    | some x => setPc s i (.lt (mkey s.heap x) 0 (s.H - 1))
  else s

/-! ### one step of thread `i` -/

def step (s : St) (i : Nat) : St :=
  let t := th s i
  match t.pc with
  | .idle => s
  | .panicked => s
  | .search k h x lvl prev obs =>
    let next := mnext s.heap lvl x
    match next, after s.heap k next with
    | some n, true => setPc s i (.search k h n lvl prev obs)
    | _, _ =>
      let prev' := prev.set lvl x
      let obs' := obs.set lvl next
      match lvl with
      | 0 =>
        -- `assert!(existing.is_null() || key(existing) != &key)`
        match next with
        | some n => if mkey s.heap n = k then setPc s i .panicked else setPc s i (.alloc k h prev' obs')
        | none => setPc s i (.alloc k h prev' obs')
      | l + 1 => setPc s i (.search k h x l prev' obs')
  | .alloc k h prev obs =>
    setPc { s with heap := s.heap ++ [⟨k, List.replicate h none⟩] } i (.setNext s.heap.length k 0 h prev obs)
  | .setNext nd k idx h prev obs =>
    setPc { s with heap := msetNext s.heap idx nd (obs.getD idx none) } i (.cas nd k idx h prev obs)
  | .cas nd k idx h prev obs =>
    let p := prev.getD idx 0
    if mnext s.heap idx p = obs.getD idx none then
      let s1 := { s with heap := msetNext s.heap idx p (some nd),
                         inserted := if idx = 0 then k :: s.inserted else s.inserted }
      if idx + 1 < h then setPc s1 i (.setNext nd k (idx + 1) h prev obs)
      else setPc { s1 with returned := k :: s1.returned } i .idle
    else setPc s i (.adv nd k idx h prev obs)
  | .adv nd k idx h prev obs =>
    let p := prev.getD idx 0
    let next := mnext s.heap idx p
    match next, after s.heap k next with
    | some n, true => setPc s i (.adv nd k idx h (prev.set idx n) obs)
    | _, _ => setPc s i (.setNext nd k idx h prev (obs.set idx next))
  | .geq k x lvl c =>
    let next := mnext s.heap lvl x
    match next, after s.heap k next with
    | some n, true => setPc s i (.geq k n lvl c)
    | _, _ =>
      match lvl with
      | 0 =>
        if c then
          let f := match next with
            | some n => decide (mkey s.heap n = k)
            | none => false
          setTh s i { t with pc := .idle, found := f }
        else setTh s i { t with pc := .idle, pos := next }
      | l + 1 => setPc s i (.geq k x l c)
  | .lt k x lvl =>
    -- `assert!(x == head || key(x) < key)`
    if x ≠ 0 ∧ ¬ mkey s.heap x < k then setPc s i .panicked
    else
      let next := mnext s.heap lvl x
      match next, after s.heap k next with
      | some n, true => setPc s i (.lt k n lvl)
      | _, _ =>
        match lvl with
        | 0 => setTh s i { t with pc := .idle, pos := some x }
        | l + 1 => setPc s i (.lt k x l)
  | .last x lvl =>
    match mnext s.heap lvl x with
    | some n => setPc s i (.last n lvl)
    | none =>
      match lvl with
      | 0 => setTh s i { t with pc := .idle, pos := some x }
      | l + 1 => setPc s i (.last x l)
  | .nxt x => setTh s i { t with pc := .idle, pos := mnext s.heap 0 x }

/-! ### what the next step of a thread does to memory (for trace validation) -/

inductive Acc where
  | load (n lvl : Nat) (r : Option Nat)
  | store (n lvl : Nat) (v : Option Nat)
  | cas (p lvl : Nat) (old : Option Nat) (new : Nat) (ok : Bool)
  | alloc (n h : Nat)
deriving DecidableEq, Repr

def access (s : St) (i : Nat) : Option Acc :=
  match (th s i).pc with
  | .idle => none
  | .panicked => none
  | .search _ _ x lvl _ _ => some (.load x lvl (mnext s.heap lvl x))
  | .alloc _ h _ _ => some (.alloc s.heap.length h)
  | .setNext nd _ idx _ _ obs => some (.store nd idx (obs.getD idx none))
  | .cas nd _ idx _ prev obs =>
    some (.cas (prev.getD idx 0) idx (obs.getD idx none) nd
      (decide (mnext s.heap idx (prev.getD idx 0) = obs.getD idx none)))
  | .adv _ _ idx _ prev _ => some (.load (prev.getD idx 0) idx (mnext s.heap idx (prev.getD idx 0)))
  | .geq _ x lvl _ => some (.load x lvl (mnext s.heap lvl x))
  | .lt _ x lvl => some (.load x lvl (mnext s.heap lvl x))
  | .last x lvl => some (.load x lvl (mnext s.heap lvl x))
  | .nxt x => some (.load x 0 (mnext s.heap 0 x))

/-! ### the chains, as the iterator and a checker see them -/

/-- node ids along level `lvl` from pointer `p` (fuel = heap size) -/
def chainFrom (heap : List MNode) (lvl : Nat) : Nat → Option Nat → List Nat
  | 0, _ => []
  | _, none => []
  | f + 1, some p => p :: chainFrom heap lvl f (mnext heap lvl p)

def chain (s : St) (lvl : Nat) : List Nat := chainFrom s.heap lvl s.heap.length (mnext s.heap lvl 0)

def strictlyIncreasing : List Nat → Bool
  | a :: b :: t => decide (a < b) && strictlyIncreasing (b :: t)
  | _ => true

def subList (a b : List Nat) : Bool := a.all fun x => b.contains x

/-- the conclusions of the chain invariant, evaluated: every level's chain from the head ends,
    is strictly sorted by key and does not pass through the head; level `l+1` is a sub-chain of
    level `l`; the keys of level 0 are exactly the linked keys -/
def chainsOk (s : St) : Bool :=
  (List.range s.H).all (fun l =>
    let c := chain s l
    decide (c.length < s.heap.length) && !c.contains 0 &&
    strictlyIncreasing (c.map (mkey s.heap)) &&
    (l = 0 || subList c (chain s (l - 1)))) &&
  subList ((chain s 0).map (mkey s.heap)) s.inserted &&
  subList s.inserted ((chain s 0).map (mkey s.heap)) &&
  subList s.returned s.inserted

/-- run a thread until it is idle again (sequential use), with fuel -/
def runToIdle : Nat → St → Nat → St
  | 0, s, _ => s
  | f + 1, s, i => if (th s i).pc = .idle ∨ (th s i).pc = .panicked then s else runToIdle f (step s i) i

/-- `DEFAULT_MAX_HEIGHT` -/
def defaultMaxHeight : Nat := 12

/-- `is_valid()` -/
def valid (t : Th) : Bool :=
  match t.pos with
  | none => false
  | some 0 => false
  | some _ => true

end Blue.SkipML
