import Blue.Model.Wavelet
/-! `scrunch::encoder::HuffmanEncoder::construct` (scrunch/src/encoder.rs:216-255): the code book
    the prefix-code wavelet tree is built over.

    What the code does, and what is modelled, step by step:
    * frequencies `(symbol, count)` in ascending symbol order (`dense_frequencies` /
      `sparse_frequencies`) — here the INPUT `freqs : List (Nat × Nat)` = `(symbol, frequency)`;
    * a min-heap of `Node { prob: f64, .. }` (`BinaryHeap<Reverse<Node>>`, ordered by `prob` ONLY:
      `Node::cmp` is `prob.total_cmp`); `while heap.len() >= 2`: pop `lhs`, pop `rhs`, push the node
      `{ prob: lhs.prob + rhs.prob, lhs, rhs }` — here `mergeLoop` over a list kept sorted by weight
      (`Nat` weights: `f64` sums of counts are exact below `2^53`), the new node inserted AFTER the
      nodes of equal weight: `huffman`.  That is NOT the `BinaryHeap`'s tie-breaking (which node of
      several of equal weight is popped first depends on the sift order inside `std`); the section
      "the construction with the tie-breaking of `std::collections::BinaryHeap`" at the end models
      `push` / `pop` / `sift_up` / `sift_down_to_bottom` themselves: `huffmanHeap`.  `Outcome` is
      the NONDETERMINISTIC construction (any two nodes that are minimal may be merged, in either
      order).  Every theorem of `Blue/Proofs/Huffman.lean` that is not about the Fibonacci family is
      proved for EVERY binary tree over the symbols, hence for all three and for whatever a heap
      does; the Fibonacci theorem is proved for every `Outcome` (and `huffman` is one);
    * `append_symbols(0, ..)`: `(depth, symbol)` of every leaf (`depths`); a tree that is a single
      leaf gets `(1, symbol)`: ONE symbol has the one-bit code `0`, not the empty code
      (`symbolsOf`).  NOT modelled: `append_symbols` stops at `depth == 255` and its `false` is
      ignored by `construct` (symbols deeper than 254 would silently get no code);
    * `symbols.sort()` (tuples `(u8, u32)`, lexicographic: `sortBy lePair`);
    * `build_code_book`: the canonical code — `code <<= len - prev_len`, entry
      `(symbol, code.reverse_bits() >> (32 - len), len)`, `code += 1` (`assignRaw`, then `flip`
      with `rev` = "the low `len` bits reversed": codes are consumed least significant bit first by
      the wavelet tree).  `Nat`, not `u32`/`u8`: the model agrees with the code while every length
      is at most 32 (`32 - len` underflows in the code beyond that);
    * `code_book.sort_unstable_by_key(symbol)` (`sortBy leSym`; symbols are distinct).
    The result is a `Blue.Wavelet.CodeBook` (`(symbol, code, len)`), the parameter of the
    wavelet-tree model.  `encode_dense` / the `decode` table are look-up structures over the same
    book (`Blue.Wavelet.encode` / `decode`). -/
namespace Blue.Huffman
open Blue.Wavelet (Entry CodeBook)

inductive HTree where
  | leaf (sym : Nat) : HTree
  | node (l r : HTree) : HTree
  deriving Repr, DecidableEq

/-- `Node` with its `prob` -/
abbrev WTree := Nat × HTree

def leaves : HTree → List Nat
  | .leaf s => [s]
  | .node l r => leaves l ++ leaves r

def height : HTree → Nat
  | .leaf _ => 0
  | .node l r => max (height l) (height r) + 1

/-- `Node::append_symbols(depth, ..)`: `(depth, symbol)` per leaf, left subtree first -/
def depths : HTree → Nat → List (Nat × Nat)
  | .leaf s, d => [(d, s)]
  | .node l r, d => depths l (d + 1) ++ depths r (d + 1)

/-! ### insertion sort (structural, so that `decide` evaluates it) -/

def insertBy {α : Type} (le : α → α → Bool) (x : α) : List α → List α
  | [] => [x]
  | y :: ys => if le x y then x :: y :: ys else y :: insertBy le x ys

def sortBy {α : Type} (le : α → α → Bool) : List α → List α
  | [] => []
  | x :: xs => insertBy le x (sortBy le xs)

/-- strictly lighter goes before: a new node goes after the nodes of equal weight -/
def ltW (a b : WTree) : Bool := decide (a.1 < b.1)

/-- `(u8, u32)` tuple order of `symbols.sort()` -/
def lePair (a b : Nat × Nat) : Bool := decide (a.1 < b.1) || (a.1 == b.1 && decide (a.2 ≤ b.2))

/-- `sort_unstable_by_key(|entry| entry.symbol)` -/
def leSym (a b : Entry) : Bool := decide (a.1 ≤ b.1)

/-! ### the merge loop -/

/-- `while heap.len() >= 2 { pop; pop; push }`, then the last node; the fuel is the number of
    nodes (one merge removes one) -/
def mergeLoop : Nat → List WTree → Option HTree
  | _, [] => none
  | _, [a] => some a.2
  | 0, _ :: _ :: _ => none
  | f + 1, a :: b :: rest => mergeLoop f (insertBy ltW (a.1 + b.1, .node a.2 b.2) rest)

def initial (freqs : List (Nat × Nat)) : List WTree := freqs.map (fun sw => (sw.2, HTree.leaf sw.1))

/-- the tree of the deterministic model (`none` only for the empty table) -/
def buildTree (freqs : List (Nat × Nat)) : Option HTree :=
  mergeLoop freqs.length (sortBy ltW (initial freqs))

/-- the construction up to tie-breaking: from a forest, any two trees `a`, `b` (`a` taken first)
    such that `a` is no heavier than any tree and `b` no heavier than any other tree may be merged
    into `node a b`; the construction ends with one tree -/
inductive Outcome : List WTree → HTree → Prop where
  | done (a : WTree) : Outcome [a] a.2
  | merge (q rest q' : List WTree) (a b : WTree) (t : HTree) :
      q.Perm (a :: b :: rest) →
      (∀ c ∈ q, a.1 ≤ c.1) → (∀ c ∈ rest, b.1 ≤ c.1) →
      q'.Perm ((a.1 + b.1, .node a.2 b.2) :: rest) →
      Outcome q' t → Outcome q t

/-! ### from the tree to the code book -/

/-- the list `construct` hands to `symbols.sort()` -/
def symbolsOf : HTree → List (Nat × Nat)
  | .leaf s => [(1, s)]
  | t => depths t 0

/-- the low `len` bits of `c`, reversed (`c.reverse_bits() >> (32 - len)` for `len ≤ 32`) -/
def rev : Nat → Nat → Nat
  | _, 0 => 0
  | c, l + 1 => (c % 2) * 2 ^ l + rev (c / 2) l

/-- `build_code_book`'s loop before the bit reversal: `(symbol, code, len)` with the running
    `code` / `prev_len` -/
def assignRaw : Nat → Nat → List (Nat × Nat) → List Entry
  | _, _, [] => []
  | code, prev, (len, sym) :: rest =>
    (sym, code <<< (len - prev), len) :: assignRaw (code <<< (len - prev) + 1) len rest

/-- `flipped` -/
def flip (e : Entry) : Entry := (e.1, rev e.2.1 e.2.2, e.2.2)

/-- `build_code_book(symbols)` after `symbols.sort()` -/
def codeBook (t : HTree) : CodeBook :=
  sortBy leSym ((assignRaw 0 1 (sortBy lePair (symbolsOf t))).map flip)

/-- `HuffmanEncoder::construct`'s code book from the `(symbol, frequency)` table (the empty table:
    `Self::default()`, the empty book) -/
def huffman (freqs : List (Nat × Nat)) : CodeBook :=
  match buildTree freqs with
  | some t => codeBook t
  | none => []

/-- the code word of an entry as the wavelet tree consumes it: `len` bits, least significant
    first -/
def bitsLE : Nat → Nat → List Bool
  | _, 0 => []
  | c, l + 1 => (c % 2 == 1) :: bitsLE (c / 2) l

/-- a bit-serial decoder over a code book (the walk `recursive_access` does down the tree, on a
    flat bit string): extend the current `(e, sz)` by one bit, emit the symbol whose code is
    exactly `(e, sz)` -/
def decodeBits (cb : CodeBook) : Nat → Nat → List Bool → List Nat
  | _, _, [] => []
  | e, sz, b :: bs =>
    let e' := e + (if b then 2 ^ sz else 0)
    match cb.find? (fun en => en.2.1 == e' && en.2.2 == sz + 1) with
    | some en => en.1 :: decodeBits cb 0 0 bs
    | none => decodeBits cb e' (sz + 1) bs

/-- the concatenated code words of a symbol list (symbols without an entry contribute nothing) -/
def encodeBits (cb : CodeBook) (text : List Nat) : List Bool :=
  text.flatMap (fun q => match Blue.Wavelet.encode cb q with
    | some (c, l) => bitsLE c l
    | none => [])

/-- Σ 2^(L - len) over the book (`= 2^L` says Σ 2^(-len) = 1) -/
def kraftSum (L : Nat) (cb : CodeBook) : Nat := (cb.map (fun en => 2 ^ (L - en.2.2))).sum

/-- Fibonacci frequencies 1, 1, 2, 3, 5, … for the symbols `0 .. n-1` -/
def fibPairs : Nat → Nat → Nat → Nat → List (Nat × Nat)
  | 0, _, _, _ => []
  | n + 1, s, a, b => (s, a) :: fibPairs n (s + 1) b (a + b)

def fibTable (n : Nat) : List (Nat × Nat) := fibPairs n 0 1 1

def maxLen (cb : CodeBook) : Nat := cb.foldl (fun m en => max m en.2.2) 0


/-! ### the construction with the tie-breaking of `std::collections::BinaryHeap`

    `alloc/src/collections/binary_heap/mod.rs` (unchanged in the relevant parts for years; read at
    the toolchain installed here): `push` = append + `sift_up(0, old_len)`; `pop` = take the last
    element, swap it with `data[0]`, `sift_down_to_bottom(0)` (walk the hole down to a leaf along the
    GREATER child — `hole.get(child) <= hole.get(child + 1)` picks the right child on a tie — then
    `sift_up(start, pos)`).  The elements are `Reverse<Node>`: `Reverse(x) <= Reverse(y)` is
    `y.prob <= x.prob`.  The hole is modelled by swaps (the element in the hole is compared only in
    `sift_up`, so the arrays are the same). -/

def swapL (l : List WTree) (i j : Nat) : List WTree :=
  if h : i < l.length ∧ j < l.length then (l.set i l[j]).set j l[i] else l

/-- `sift_up(start, pos)`: stop when `hole.element() <= hole.get(parent)`, i.e. (under `Reverse`)
    when the parent's weight is `≤` the element's -/
def siftUp : Nat → List WTree → Nat → Nat → List WTree
  | 0, d, _, _ => d
  | f + 1, d, start, pos =>
    if start < pos then
      match d[pos]?, d[(pos - 1) / 2]? with
      | some e, some p => if p.1 ≤ e.1 then d else siftUp f (swapL d pos ((pos - 1) / 2)) start ((pos - 1) / 2)
      | _, _ => d
    else d

/-- the descent of `sift_down_to_bottom`; returns the data and the final position of the hole -/
def siftDownBottom : Nat → List WTree → Nat → List WTree × Nat
  | 0, d, pos => (d, pos)
  | f + 1, d, pos =>
    if 2 * pos + 1 + 2 ≤ d.length then
      match d[2 * pos + 1]?, d[2 * pos + 2]? with
      | some l, some r =>
        -- `child += (Reverse(l) <= Reverse(r)) as usize`: the right child when `r.prob <= l.prob`
        let c := if r.1 ≤ l.1 then 2 * pos + 2 else 2 * pos + 1
        siftDownBottom f (swapL d pos c) c
      | _, _ => (d, pos)
    else if 2 * pos + 1 + 1 = d.length then (swapL d pos (2 * pos + 1), 2 * pos + 1)
    else (d, pos)

def heapPush (d : List WTree) (x : WTree) : List WTree := siftUp (d.length + 1) (d ++ [x]) 0 d.length

def heapPop (d : List WTree) : Option (WTree × List WTree) :=
  match d.getLast? with
  | none => none
  | some item =>
    match d.dropLast with
    | [] => some (item, [])
    | top :: tl =>
      let r := siftDownBottom (tl.length + 1) (item :: tl) 0
      some (top, siftUp (tl.length + 1) r.1 0 r.2)

/-- `while heap.len() >= 2 { pop; pop; push }`, then the last node -/
def heapLoop : Nat → List WTree → Option HTree
  | _, [] => none
  | _, [a] => some a.2
  | 0, _ :: _ :: _ => none
  | f + 1, d@(_ :: _ :: _) =>
    match heapPop d with
    | none => none
    | some (a, d1) =>
      match heapPop d1 with
      | none => none
      | some (b, d2) => heapLoop f (heapPush d2 (a.1 + b.1, .node a.2 b.2))

/-- the tree `construct` builds, tie-breaking included; `freqs` in the order `construct` pushes
    them (ascending symbol) -/
def heapTree (freqs : List (Nat × Nat)) : Option HTree :=
  heapLoop freqs.length ((initial freqs).foldl heapPush [])

/-- the code book of `HuffmanEncoder::construct`, tie-breaking of the `BinaryHeap` included -/
def huffmanHeap (freqs : List (Nat × Nat)) : CodeBook :=
  match heapTree freqs with
  | some t => codeBook t
  | none => []

def dedup : List Nat → List Nat
  | [] => []
  | x :: xs => if (dedup xs).contains x then dedup xs else x :: dedup xs

/-- `dense_frequencies` / `sparse_frequencies`: the distinct symbols of the text in ascending order,
    each with its number of occurrences -/
def freqsOf (text : List Nat) : List (Nat × Nat) :=
  (sortBy (fun a b => decide (a ≤ b)) (dedup text)).map (fun s => (s, text.count s))

/-- `HuffmanEncoder::construct(text)`'s code book -/
def bookOfText (text : List Nat) : CodeBook := huffmanHeap (freqsOf text)

end Blue.Huffman
