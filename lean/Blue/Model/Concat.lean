import Blue.Model.Cursor
/-! Concatenating cursor (sst/src/concat_cursor.rs) over reference children, with the repairs
    planned for D-2 (`next` tests `key()`, not `value()`) and D-18 (`seek` completes its binary
    search instead of breaking off at `mid == left`). -/
namespace Blue.Cursor

structure Concat (E : Type) where
  cs : List (Ref E)
  position : Nat

namespace Concat
variable {E : Type}

def modifyAt (cs : List (Ref E)) (i : Nat) (f : Ref E → Ref E) : List (Ref E) :=
  match cs[i]? with
  | some c => cs.set i (f c)
  | none => cs

/-- `reposition(idx)`: the cursor being left is rewound -/
def reposition (m : Concat E) (idx : Nat) : Concat E :=
  if m.position ≠ idx then ⟨modifyAt m.cs m.position Ref.first, idx⟩ else m

def active (m : Concat E) : Option (Ref E) := m.cs[m.position]?

def kv (m : Concat E) : Option E := match m.active with | some c => c.kv | none => none

def seekToFirst (m : Concat E) : Concat E :=
  let m := m.reposition 0
  ⟨modifyAt m.cs m.position Ref.first, m.position⟩

def seekToLast (m : Concat E) : Concat E :=
  let m := m.reposition (m.cs.length - 1)
  ⟨modifyAt m.cs m.position Ref.last, m.position⟩

/-- `loop { next; if key().is_none() && position + 1 < len { reposition(position+1); seek_to_first } else break }` -/
def nextLoop : Nat → Concat E → Concat E
  | 0, m => m
  | f+1, m =>
    let m1 : Concat E := ⟨modifyAt m.cs m.position Ref.next, m.position⟩
    if m1.kv.isNone && m1.position + 1 < m1.cs.length then
      let m2 := m1.reposition (m1.position + 1)
      nextLoop f ⟨modifyAt m2.cs m2.position Ref.first, m2.position⟩
    else m1

def next (m : Concat E) : Concat E := nextLoop (m.cs.length + 1) m

def prevLoop : Nat → Concat E → Concat E
  | 0, m => m
  | f+1, m =>
    let m1 : Concat E := ⟨modifyAt m.cs m.position Ref.prev, m.position⟩
    if m1.kv.isNone && 0 < m1.position then
      let m2 := m1.reposition (m1.position - 1)
      prevLoop f ⟨modifyAt m2.cs m2.position Ref.last, m2.position⟩
    else m1

def prev (m : Concat E) : Concat E := prevLoop (m.cs.length + 1) m

/-- last entry of the nearest non-empty child at or below `probe`, not below `left` -/
def probeDown (cs : List (Ref E)) (left : Nat) : Nat → Option (Nat × E)
  | probe =>
    match cs[probe]? with
    | none => none
    | some c =>
      match c.xs.getLast? with
      | some e => some (probe, e)
      | none => if left < probe then probeDown cs left (probe - 1) else none
termination_by probe => probe
decreasing_by omega

/-- repaired binary search for the first child holding an entry at or after the target -/
def searchLoop (cs : List (Ref E)) (pred : E → Bool) : Nat → Nat → Nat → Nat
  | 0, left, _ => left
  | f+1, left, right =>
    if left < right then
      let mid := (left + right) / 2
      match probeDown cs left mid with
      | some (j, e) => if pred e then searchLoop cs pred f left j else searchLoop cs pred f (mid + 1) right
      | none => searchLoop cs pred f (mid + 1) right
    else left

def seek (pred : E → Bool) (m : Concat E) : Concat E :=
  let target := searchLoop m.cs pred (m.cs.length + 1) 0 (m.cs.length - 1)
  let m := m.reposition target
  ⟨modifyAt m.cs m.position (Ref.seek pred), m.position⟩

def new (cs : List (Ref E)) : Concat E := ⟨modifyAt cs 0 Ref.first, 0⟩

def step (m : Concat E) : Op E → Concat E
  | .first => m.seekToFirst | .last => m.seekToLast | .next => m.next | .prev => m.prev
  | .seek pred => m.seek pred

def run (m : Concat E) : List (Op E) → List (Option E)
  | [] => []
  | op :: ops => (m.step op).kv :: run (m.step op) ops

end Concat
end Blue.Cursor
