import Blue.Model.PsiWt
import Blue.Model.Sigma
import Blue.Model.Sampled
/-! `PsiDocument<SampledSuffixArray, SampledInverseSuffixArray, WaveletTreePsi>` = `CompressedDocument`:
    `backwards_search` / `count` / `search` / `retrieve` with every component as the code has it — the
    symbol ranges from `Sigma` (`Blue.Sigma`), ψ from the wavelet-tree ψ (`Blue.PsiWt`: `constrain` for
    backward search on CLOSED ranges, `lookup` for the walks), the suffix array and its inverse from
    the sampled containers (`Blue.Sampled`).

    Conventions: `syms` is the first dense symbol of every rank (`Sigma::sa_index_to_sigma`), `w` the
    constructed wavelet-tree ψ, `rf` the symbol ranges on code points (`Sigma::sa_range_for`, with the
    `Err(BadSelect)` exits folded into the empty range, see `Blue.Sigma.rangeForT`). -/
namespace Blue.PsiDoc
open Blue.PsiWt Blue.PsiWt.Outcome

/-- `PsiDocument::backwards_search(needle)`: the last symbol's range, then one `Psi::constrain` per
    preceding symbol; the empty needle is `(1, psi.len() - 1)` -/
def backwardsSearch (syms : List Nat) (w : WtPsi) (rf : Nat → Nat × Nat) : List Nat → Outcome (Nat × Nat)
  | [] => ok (1, len w - 1)
  | [t] => ok (rf t)
  | c :: rest =>
    match backwardsSearch syms w rf rest with
    | ok r => constrain syms w (rf c) r
    | err => err
    | .panic => .panic

/-- `count(needle)` -/
def count (syms : List Nat) (w : WtPsi) (rf : Nat → Nat × Nat) (needle : List Nat) : Outcome Nat :=
  match backwardsSearch syms w rf needle with
  | ok r => ok (if r.1 > r.2 then 0 else r.2 - r.1 + 1)
  | err => err
  | .panic => .panic

/-- `search(needle)`: `sa.lookup` of every rank of the closed range (ψ-walk over the wavelet-tree ψ),
    sorted -/
def search (syms : List Nat) (w : WtPsi) (rf : Nat → Nat × Nat) (s : Blue.Sampled.Ssa) (needle : List Nat) :
    Outcome (List Nat) :=
  match backwardsSearch syms w rf needle with
  | ok r =>
    if r.1 > r.2 then ok []
    else orErr ((Blue.Sampled.allSome ((List.range (r.2 - r.1 + 1)).map
        (fun d => Blue.Sampled.ssaWalk (lookup syms w) s (len w + 1) (r.1 + d) 0))).map
      (fun ps => ps.foldr Blue.CsaDoc.insertNat []))
  | err => err
  | .panic => .panic

/-- the loop of `retrieve`: `sigma.sa_index_to_t(idx)`, then `psi.lookup(idx)` -/
def walk (sg : Blue.Sigma.Sig) (syms : List Nat) (w : WtPsi) : Nat → Nat → Option (List Nat)
  | 0, _ => some []
  | k + 1, idx =>
    match Blue.Sigma.saIndexToT sg idx, lookup syms w idx with
    | some c, some j => (walk sg syms w k j).map (c :: ·)
    | _, _ => none

/-- `retrieve(record)` -/
def retrieve (sg : Blue.Sigma.Sig) (syms : List Nat) (w : WtPsi) (si : Blue.Sampled.SArr) (bits : List Bool)
    (r : Nat) : Option (List Nat) :=
  match Blue.BitVec.select bits r with
  | none => none
  | some start =>
    let limit := (Blue.BitVec.select bits (r + 1)).getD bits.length
    if start > limit then none
    else match Blue.Sampled.sisaLookup si start with
      | none => none
      | some idx => walk sg syms w (limit - start) idx

end Blue.PsiDoc
