import Blue.Model.TupleKey1
import Blue.Model.Utf8
/-! Field-numbered tuple keys, the typed layer (tuple_key/src/lib.rs): discriminants, the tag in
    front of every element (`TupleKey::field_number` / `unfield_number`), `extend_with_key`,
    `TupleKeyIterator`, `TupleKeyParser::{peek_next, parse_next, parse_next_with_key}`, the
    `Element::parse_from` impls and the schema-free walk of `Schema::schema_for_key_recurse`. -/
namespace Blue.TupleKey1

/-- `KeyDataType` -/
inductive Ty | unit | u32 | u64 | i32 | i64 | str
  deriving DecidableEq, Repr

/-- `Direction` (`fwd` = `Forward`, `rev` = `Reverse`) -/
inductive Dir | fwd | rev
  deriving DecidableEq, Repr

/-- a value of one of the `Element` types; strings are their UTF-8 bytes -/
inductive Val
  | unit
  | u32 (n : Nat)
  | u64 (n : Nat)
  | i32 (z : Int)
  | i64 (z : Int)
  | str (s : List Nat)
  deriving DecidableEq

def Val.ty : Val → Ty
  | .unit => .unit
  | .u32 _ => .u32
  | .u64 _ => .u64
  | .i32 _ => .i32
  | .i64 _ => .i64
  | .str _ => .str

/-- `to_discriminant` -/
def discriminant : Ty → Dir → Nat
  | .unit, .fwd => 1
  | .u32, .fwd => 2
  | .u64, .fwd => 3
  | .i32, .fwd => 4
  | .i64, .fwd => 5
  | .str, .fwd => 6
  | .unit, .rev => 9
  | .u32, .rev => 10
  | .u64, .rev => 11
  | .i32, .rev => 12
  | .i64, .rev => 13
  | .str, .rev => 14

/-- `from_discriminant` -/
def fromDiscriminant : Nat → Option (Ty × Dir)
  | 1 => some (.unit, .fwd)
  | 2 => some (.u32, .fwd)
  | 3 => some (.u64, .fwd)
  | 4 => some (.i32, .fwd)
  | 5 => some (.i64, .fwd)
  | 6 => some (.str, .fwd)
  | 9 => some (.unit, .rev)
  | 10 => some (.u32, .rev)
  | 11 => some (.u64, .rev)
  | 12 => some (.i32, .rev)
  | 13 => some (.i64, .rev)
  | 14 => some (.str, .rev)
  | _ => none

/-- `prototk::FieldNumber::new` accepts exactly these -/
def firstFieldNumber : Nat := 1
def lastFieldNumber : Nat := 536870911
def firstReservedFieldNumber : Nat := 19000
def lastReservedFieldNumber : Nat := 19999
def validField (f : Nat) : Bool :=
  firstFieldNumber ≤ f && f ≤ lastFieldNumber && !(firstReservedFieldNumber ≤ f && f ≤ lastReservedFieldNumber)

/-- `v64::pack`: little-endian groups of seven bits, high bit = "more follows" (fuel = 10 bytes) -/
def varint : Nat → Nat → List Nat
  | 0, _ => []
  | f + 1, x => if x < 128 then [x] else (x % 128 + 128) :: varint f (x / 128)

/-- `u8::rotate_left(1)` / `rotate_right(1)` -/
def rotl1 (b : Nat) : Nat := b % 128 * 2 + b / 128
def rotr1 (b : Nat) : Nat := b / 2 + b % 2 * 128

/-- `TupleKey::field_number`: the varint of `field << 4 | discriminant` with the continuation bit
    rotated from the high to the low end of every byte -/
def tag (f : Nat) (ty : Ty) (d : Dir) : List Nat := (varint 10 (f * 16 + discriminant ty d)).map rotl1

/-- `Element::append_to` -/
def encElem : Val → List Nat
  | .unit => [0]
  | .u32 n => encU32 n
  | .u64 n => encU64 n
  | .i32 z => encI32 z
  | .i64 z => encI64 z
  | .str s => encString s

def encDir : Dir → List Nat → List Nat
  | .fwd, bs => bs
  | .rev, bs => reverse bs

/-- `TupleKey::extend_with_key` -/
def encField (f : Nat) (d : Dir) (v : Val) : List Nat := tag f v.ty d ++ encDir d (encElem v)

/-- a whole key: one `extend_with_key` per element (`TupleKey::extend(f)` is
    `encField f .fwd .unit`) -/
def encTuple : List (Nat × Dir × Val) → List Nat
  | [] => []
  | (f, d, v) :: t => encField f d v ++ encTuple t

/-- `TupleKeyIterator::next` on a non-empty buffer: bytes while the low bit is set, plus the
    byte that ends the run if there is one -/
def splitElem : List Nat → List Nat × List Nat
  | [] => ([], [])
  | b :: rest =>
    if b % 2 = 1 then
      match splitElem rest with
      | (e, r) => (b :: e, r)
    else ([b], rest)

/-- the parser's `&'static str` errors -/
inductive Err
  | noMore            -- "no more elements to TupleKey"
  | tagMismatch       -- "tag does not match"
  | missingValue      -- "missing value element"
  | unitWidth         -- "unit not exactly 1 bytes"
  | width5            -- "buf not exactly 5 bytes"
  | width10           -- "buf not exactly 10 bytes"
  | utf8              -- "invalid UTF-8 sequence"
  | unitStructWidth   -- "unit struct with length != 1"
  | badTag            -- "not a valid tag"
  deriving DecidableEq, Repr

/-- `Element::parse_from` -/
def parseFrom : Ty → List Nat → Except Err Val
  | .unit, bs => if bs.length = 1 then .ok .unit else .error .unitWidth
  | .u32, bs => match decU32 bs with
    | some n => .ok (.u32 n)
    | none => .error .width5
  | .u64, bs => match decU64 bs with
    | some n => .ok (.u64 n)
    | none => .error .width10
  | .i32, bs => match decI32 bs with
    | some z => .ok (.i32 z)
    | none => .error .width5
  | .i64, bs => match decI64 bs with
    | some z => .ok (.i64 z)
    | none => .error .width10
  | .str, bs => if Blue.Utf8.valid (decString bs) then .ok (.str (decString bs)) else .error .utf8

/-- `TupleKeyParser::parse_next_tag`; the parser state is the unread suffix -/
def parseTag (buf : List Nat) (f : Nat) (ty : Ty) (d : Dir) : Except Err (List Nat) :=
  match buf with
  | [] => .error .noMore
  | _ :: _ => if (splitElem buf).1 = tag f ty d then .ok (splitElem buf).2 else .error .tagMismatch

/-- `TupleKeyParser::parse_next_with_key::<E>` -/
def parseWithKey (buf : List Nat) (f : Nat) (ty : Ty) (d : Dir) : Except Err (Val × List Nat) :=
  match parseTag buf f ty d with
  | .error e => .error e
  | .ok [] => .error .missingValue
  | .ok (b :: r) =>
    match parseFrom ty (encDir d (splitElem (b :: r)).1) with
    | .error e => .error e
    | .ok v => .ok (v, (splitElem (b :: r)).2)

/-- `TupleKeyParser::parse_next` (the unit-struct form used by `TupleKey::extend`) -/
def parseNext (buf : List Nat) (f : Nat) (d : Dir) : Except Err (List Nat) :=
  match parseTag buf f .unit d with
  | .error e => .error e
  | .ok [] => .error .noMore
  | .ok (b :: r) => if (splitElem (b :: r)).1.length = 1 then .ok (splitElem (b :: r)).2 else .error .unitStructWidth

/-- `v64::unpack` on at most ten bytes (`unpack_slow` below ten, `unpack_size` at ten: the first
    byte below 128 ends the number and what follows is ignored; the tenth byte's `<< 63` wraps) -/
def unvarint : Nat → List Nat → Option Nat
  | _, [] => none
  | i, b :: rest =>
    if b < 128 then some (b * 2 ^ (7 * i) % 18446744073709551616)
    else match rest with
      | [] => none
      | _ :: _ => (unvarint (i + 1) rest).map (· + (b - 128) * 2 ^ (7 * i))

/-- `TupleKey::unfield_number` -/
def unfieldNumber (e : List Nat) : Option (Nat × Ty × Dir) :=
  if e.length > 10 then none
  else match unvarint 0 (e.map rotr1) with
    | none => none
    | some x =>
      match fromDiscriminant (x % 16) with
      | none => none
      | some (ty, d) =>
        if x / 16 > 4294967295 then none
        else if validField (x / 16) then some (x / 16, ty, d) else none

/-- `TupleKeyParser::peek_next` -/
def peekNext (buf : List Nat) : Except Err (Option (Nat × Ty × Dir)) :=
  match buf with
  | [] => .ok none
  | _ :: _ => match unfieldNumber (splitElem buf).1 with
    | none => .error .badTag
    | some x => .ok (some x)

/-- decode with an expected element sequence; returns what was parsed and how it ended -/
def parseRow : List (Nat × Ty × Dir) → List Nat → List Val × Except Err (List Nat)
  | [], buf => ([], .ok buf)
  | (f, ty, d) :: sch, buf =>
    match parseWithKey buf f ty d with
    | .error e => ([], .error e)
    | .ok (v, rest) =>
      match parseRow sch rest with
      | (vs, r) => (v :: vs, r)

/-- the schema-free walk (`Schema::schema_for_key_recurse` without the schema): peek the tag,
    parse the element it announces (`parse_next` for units); fuel = buffer length + 1 -/
def scan : Nat → List Nat → List (Nat × Dir × Val) × Option Err
  | 0, _ => ([], none)
  | fuel + 1, buf =>
    match peekNext buf with
    | .error e => ([], some e)
    | .ok none => ([], none)
    | .ok (some (f, .unit, d)) =>
      (match parseNext buf f d with
       | .error e => ([], some e)
       | .ok rest =>
         match scan fuel rest with
         | (vs, r) => ((f, d, .unit) :: vs, r))
    | .ok (some (f, ty, d)) =>
      (match parseWithKey buf f ty d with
       | .error e => ([], some e)
       | .ok (v, rest) =>
         match scan fuel rest with
         | (vs, r) => ((f, d, v) :: vs, r))

/-- do two keys first differ in the continuation bit only — the first ending an element there
    (low bit clear), the second going on with the same seven data bits?  (D-20's trigger, decidable) -/
def contTieB : List Nat → List Nat → Bool
  | a :: as, b :: bs => if a = b then contTieB as bs else (a % 2 = 0 && b = a + 1)
  | _, _ => false

end Blue.TupleKey1
