import Blue.Model.Log
/-! One log file under the write protocol of `KeyValueStore::write`:
    `append(frame bytes); fdatasync; acknowledge`, with crashes between system calls. -/
namespace Blue.LogCrash
open Blue.Log

/-- a file: what has reached the disk, and what has only been written -/
structure FileSt where
  synced : List Nat
  pending : List Nat

inductive Ev where
  | write (bytes : List Nat)
  | sync
  | ack (i : Nat)

def FileSt.apply (s : FileSt) : Ev → FileSt
  | .write bs => { s with pending := s.pending ++ bs }
  | .sync => ⟨s.synced ++ s.pending, []⟩
  | .ack _ => s

/-- persistence model (a): everything written survives -/
def crashA (s : FileSt) : List Nat := s.synced ++ s.pending
/-- persistence model (b): only what was synced survives -/
def crashB (s : FileSt) : List Nat := s.synced

variable (P : Params)

/-- the system calls of appending the batches one after the other, starting at offset `pos`,
    batch numbers starting at `i` -/
def protocol : List (List Nat) → Nat → Nat → List Ev
  | [], _, _ => []
  | b :: bs, pos, i =>
    .write (appendAt P 2 pos b) :: .sync :: .ack i :: protocol bs (pos + (appendAt P 2 pos b).length) (i + 1)

/-- the batches whose `ack` is among the events -/
def acked (evs : List Ev) : Nat := (evs.filter (fun e => match e with | .ack _ => true | _ => false)).length

end Blue.LogCrash
