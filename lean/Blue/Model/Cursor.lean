import Blue.Model.Heap
/-! Reference cursor and the merging cursor (sst/src/merging_cursor.rs), generic in the entry type. -/
namespace Blue.Cursor

/-- Reference cursor: a list and a position in `0 .. n+1` (0 = before first, n+1 = after last). -/
structure Ref (E : Type) where
  xs : List E
  pos : Nat
deriving Repr

namespace Ref
variable {E : Type}

def kv (c : Ref E) : Option E := if c.pos = 0 then none else c.xs[c.pos - 1]?
def first (c : Ref E) : Ref E := { c with pos := 0 }
def last (c : Ref E) : Ref E := { c with pos := c.xs.length + 1 }
def next (c : Ref E) : Ref E := if c.pos ≤ c.xs.length then { c with pos := c.pos + 1 } else c
def prev (c : Ref E) : Ref E := if 0 < c.pos then { c with pos := c.pos - 1 } else c
/-- `seek`: first entry satisfying the (monotone) predicate "at or after the target". -/
def seek (p : E → Bool) (c : Ref E) : Ref E := { c with pos := c.xs.findIdx p + 1 }

end Ref

/-- `Comparator::is_less` on two child cursors, through their current entries. -/
def isLess {E : Type} (lt : E → E → Bool) (fwd : Bool) (a b : Option E) : Bool :=
  match fwd, a, b with
  | true, some x, some y => lt x y
  | true, some _, none => true
  | true, none, _ => false
  | false, some x, some y => lt y x
  | false, some _, none => true
  | false, none, _ => false

structure Merging (E : Type) where
  fwd : Bool
  cs : List (Ref E)

namespace Merging
variable {E : Type} (lt : E → E → Bool)

def cmp (fwd : Bool) (a b : Ref E) : Bool := isLess lt fwd a.kv b.kv

def modifyHead (f : Ref E → Ref E) : List (Ref E) → List (Ref E)
  | [] => []
  | c :: cs => f c :: cs

def seekToFirst (m : Merging E) : Merging E :=
  let cs := m.cs.map (fun c => c.first.next)
  let cs := Heap.heapify (cmp lt true) cs
  { fwd := true, cs := modifyHead Ref.first cs }

def seekToLast (m : Merging E) : Merging E :=
  let cs := m.cs.map (fun c => c.last.prev)
  let cs := Heap.heapify (cmp lt false) cs
  { fwd := false, cs := modifyHead Ref.last cs }

def seek (p : E → Bool) (m : Merging E) : Merging E :=
  { fwd := true, cs := Heap.heapify (cmp lt true) (m.cs.map (Ref.seek p)) }

def next (m : Merging E) : Merging E :=
  if m.fwd then
    let cs := modifyHead Ref.next m.cs
    { m with cs := Heap.percolateDown (cmp lt true) cs 0 cs.length }
  else
    { fwd := true, cs := Heap.heapify (cmp lt true) (m.cs.map Ref.next) }

def prev (m : Merging E) : Merging E :=
  if m.fwd then
    { fwd := false, cs := Heap.heapify (cmp lt false) (m.cs.map Ref.prev) }
  else
    let cs := modifyHead Ref.prev m.cs
    { m with cs := Heap.percolateDown (cmp lt false) cs 0 cs.length }

def kv (m : Merging E) : Option E :=
  match m.cs with
  | [] => none
  | c :: _ => c.kv

def new (cs : List (Ref E)) : Merging E := seekToFirst lt { fwd := true, cs := cs }

end Merging

/-- cursor programs -/
inductive Op (E : Type) where
  | first | last | next | prev
  | seek (p : E → Bool)

def Ref.step {E : Type} (c : Ref E) : Op E → Ref E
  | .first => c.first | .last => c.last | .next => c.next | .prev => c.prev | .seek p => c.seek p

def Merging.step {E : Type} (lt : E → E → Bool) (m : Merging E) : Op E → Merging E
  | .first => m.seekToFirst lt | .last => m.seekToLast lt | .next => m.next lt | .prev => m.prev lt
  | .seek p => m.seek lt p

/-- programs: the observation after each call -/
def Ref.run {E : Type} (c : Ref E) : List (Op E) → List (Option E)
  | [] => []
  | op :: ops => (c.step op).kv :: Ref.run (c.step op) ops

def Merging.run {E : Type} (lt : E → E → Bool) (m : Merging E) : List (Op E) → List (Option E)
  | [] => []
  | op :: ops => (m.step lt op).kv :: Merging.run lt (m.step lt op) ops

end Blue.Cursor
