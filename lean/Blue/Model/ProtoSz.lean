import Blue.Model.ProtoMsg
/-! `pack_sz` of prototk messages as the code computes it (property C15): NOT the length of the
    packing, but the sum the `Packable::pack_sz` implementations add up —
    * `v64::pack_sz`: the shift loop (`Blue.ProtoMsg.varintSz`);
    * `Tag::pack_sz` = `v64::pack_sz` of `(number << 3) | wire type`;
    * varint field types: `v64::pack_sz` of the converted value; fixed-width types: 4 or 8;
      `bytes` / `string` / `bytesNN` (`impl Packable for &[u8]`): `v64(len).pack_sz() + len`;
    * `StackPacker::pack_sz` = prefix + value, so a field is tag size + payload size;
    * a nested message is `stack_pack(tag).pack(stack_pack(self).length_prefixed())`:
      `LengthPrefixer::pack_sz` = `v64(size).pack_sz() + size` with `size` the inner `pack_sz`;
    * `Option`: 0 or the field; `Vec`: the sum over the elements (each with its own tag);
    * a struct: the sum over its fields; an enum: the one field of the variant (a unit variant is
      an empty `bytes` field, a named variant a length-prefixed struct body);
    * `Result`: `v64(10 | 18).pack_sz() + v64(inner).pack_sz() + inner`. -/
namespace Blue.ProtoMsg
open Blue.Wire

/-- `Tag::pack_sz` -/
def szTag (t : Tag) : Nat := varintSz (t.num * 8 + t.wt.bits)

/-- `impl Packable for &[u8]` / `LengthPrefixer::pack_sz`: length prefix + body -/
def szFrame (n : Nat) : Nat := varintSz n + n

/-- `Packable::pack_sz` of a field type's value (the payload after the tag) -/
def szScalar (s : Scalar) (v : Val) : Nat :=
  match s, v with
  | .int32, .int i | .int64, .int i => varintSz (u64OfI64 i)
  | .uint32, .int i | .uint64, .int i => varintSz i.toNat
  | .sint32, .int i | .sint64, .int i => varintSz (zigzag i)
  | .bool, .int i => varintSz (if i = 0 then 0 else 1)
  | .fixed32, .int _ | .float, .int _ | .sfixed32, .int _ => 4
  | .fixed64, .int _ | .double, .int _ | .sfixed64, .int _ => 8
  | .bytes, .bytes b | .bytesN _, .bytes b | .string, .bytes b => szFrame b.length
  | _, _ => 0

def szTyWith (rec : Msg → Val → Nat) : Ty → Val → Nat
  | .scalar s, v => szScalar s v
  | .msg m, v => szFrame (rec m v)

/-- `FieldPackHelper::field_pack_sz` for one plain value: `stack_pack(tag).pack(value).pack_sz()` -/
def szOne (rec : Msg → Val → Nat) (num : Nat) (ty : Ty) (v : Val) : Nat :=
  szTag ⟨num, ty.wt⟩ + szTyWith rec ty v

/-- the `for f in self { bytes += f.field_pack_sz(tag) }` of `Vec` -/
def szSum (g : Val → Nat) : List Val → Nat
  | [] => 0
  | v :: vs => g v + szSum g vs

/-- `field_pack_sz` for plain / `Option` / `Vec` -/
def szSlot (rec : Msg → Val → Nat) (f : Field) (v : Val) : Nat :=
  match f.card, v with
  | .one, v => szOne rec f.num f.ty v
  | .opt, .some v => szOne rec f.num f.ty v
  | .rep, .list vs => szSum (szOne rec f.num f.ty) vs
  | _, _ => 0

def szFields (rec : Msg → Val → Nat) : List Field → List Val → Nat
  | f :: fs, v :: vs => szSlot rec f v + szFields rec fs vs
  | _, _ => 0

/-- `Packable::pack_sz` of a derived message / of `Result` -/
def packSzMsg : Nat → Msg → Val → Nat
  | 0, _, _ => 0
  | f+1, .struct fs, .struct vs => szFields (packSzMsg f) fs vs
  | f+1, .enum vars _, .variant i p =>
    match vars[i]? with
    | some (.unit n) => szTag ⟨n, .lengthDelimited⟩ + szFrame 0
    | some (.tuple n ty) => szOne (packSzMsg f) n ty p
    | some (.named n fs) =>
      match p with
      | .struct vs => szTag ⟨n, .lengthDelimited⟩ + szFrame (szFields (packSzMsg f) fs vs)
      | _ => 0
    | none => 0
  | f+1, .result okm errm _, .variant i p =>
    if i = 0 then varintSz 10 + szFrame (packSzMsg f okm p)
    else if i = 1 then varintSz 18 + szFrame (packSzMsg f errm p)
    else 0
  | _, _, _ => 0

end Blue.ProtoMsg
