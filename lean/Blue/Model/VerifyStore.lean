import Blue.Model.VerifyOne
/-! The manifest edits the store writes, at the level of file CONTENTS (lsmtk/src/tree/mod.rs:
    `apply_manifest_ingest`, `perform_compaction`, `perform_garbage_collection`,
    `compaction_finish`, `apply_manifest_compaction`, `apply_moving_compaction`), for the
    theorems of C04 about the verifier's real checks (`Blue.VerifyOne`).

    The tree is the list of its files, a file the list of its entries, a file's name the digest of
    the sum over its entries.  A compaction reads its inputs through one merging cursor
    (`mergeTables`) and cuts what it keeps into output files at arbitrary places (`pieces`: the
    multi-builder never writes an empty file); a garbage collection keeps what the collector
    returns (`gcKeep`) and adds the rest to the discard; a trivial move writes no edit.  An output
    that has the contents of an input has its name (the edit then removes and adds one string). -/
namespace Blue.VerifyOne
open Blue.Mani (Edit)
open Blue.Verifier (Name)
open Blue.Compact (Entry)

variable {G : Type}

inductive StoreOp where
  /-- `apply_manifest_ingest`: one new file -/
  | ingest (f : File)
  /-- `perform_compaction`: the inputs, and where the merged run is cut -/
  | compact (ins : List File) (cuts : List Nat)
  /-- `perform_garbage_collection` (a compaction into the last level) -/
  | gc (ins : List File) (cuts : List Nat)
  /-- `apply_moving_compaction`: a file changes level; the manifest is not written -/
  | move

/-- the non-empty consecutive pieces of a run -/
def pieces (cuts : List Nat) (l : List Entry) : List File :=
  (Blue.Compact.cut cuts l).filter (fun p => !p.isEmpty)

/-- the loop of `perform_garbage_collection`: an input goes to the outputs when it is the
    collector's next key (which then advances) -/
def gcKeep : List KeyRef → List Entry → List Entry
  | _, [] => []
  | [], _ :: _ => []
  | r :: rs, e :: m => if r = kr e then e :: gcKeep rs m else gcKeep (r :: rs) m

/-- … and to the discard otherwise -/
def gcDrop : List KeyRef → List Entry → List Entry
  | _, [] => []
  | [], e :: m => e :: m
  | r :: rs, e :: m => if r = kr e then gcDrop rs m else e :: gcDrop (r :: rs) m

def opRm : StoreOp → List File
  | .ingest _ => []
  | .compact ins _ => ins
  | .gc ins _ => ins
  | .move => []

def opAdd (policy : Blue.Gc.Policy) : StoreOp → List File
  | .ingest f => [f]
  | .compact ins cuts => pieces cuts (mergeTables ins)
  | .gc ins cuts => pieces cuts (gcKeep (retained policy (mergeTables ins)) (mergeTables ins))
  | .move => []

/-- the version after the transaction -/
def stepFiles (policy : Blue.Gc.Policy) (files : List File) (op : StoreOp) : List File :=
  files.filter (fun f => !(opRm op).contains f) ++ opAdd policy op

/-- the discard setsum the store records: minus the new file for an ingest, nothing for a
    compaction, the sum over the dropped entries for a garbage collection -/
def opDiscard (o : Ops G) (h : Entry → G) (policy : Blue.Gc.Policy) : StoreOp → G
  | .ingest f => o.neg (setsumOf o h f)
  | .compact _ _ => o.zero
  | .gc ins _ => setsumOf o h (gcDrop (retained policy (mergeTables ins)) (mergeTables ins))
  | .move => o.zero

/-- Σ of the names of the files -/
def treeSum (o : Ops G) (h : Entry → G) (files : List File) : G :=
  files.foldr (fun f acc => o.add (setsumOf o h f) acc) o.zero

/-- an edit with its three info fields; `nm` is `Setsum::hexdigest` -/
def mkEdit (nm : G → Name) (I O D : G) (rm add : List G) : Edit :=
  ⟨rm.map nm, add.map nm, [(68, nm D), (73, nm I), (79, nm O)]⟩

/-- the edit `apply_manifest_*` writes for a transaction on a tree with these files -/
def editOf (o : Ops G) (h : Entry → G) (policy : Blue.Gc.Policy) (nm : G → Name) (files : List File) (op : StoreOp) : Edit :=
  let I := treeSum o h files
  let D := opDiscard o h policy op
  mkEdit nm I (o.sub I D) D ((opRm op).map (setsumOf o h)) ((opAdd policy op).map (setsumOf o h))

def isMove : StoreOp → Bool
  | .move => true
  | _ => false

/-- the edits of a history -/
def editsOf (o : Ops G) (h : Entry → G) (policy : Blue.Gc.Policy) (nm : G → Name) : List File → List StoreOp → List Edit
  | _, [] => []
  | files, op :: ops =>
    if isMove op then editsOf o h policy nm files ops
    else editOf o h policy nm files op :: editsOf o h policy nm (stepFiles policy files op) ops

def finalFiles (policy : Blue.Gc.Policy) : List File → List StoreOp → List File
  | files, [] => files
  | files, op :: ops => finalFiles policy (if isMove op then files else stepFiles policy files op) ops

/-- the first edit of a fragment: the state at the roll-over (every file, `O`); `I` and `D` are
    carried over from the last transaction of the previous fragment -/
def rollup (o : Ops G) (h : Entry → G) (nm : G → Name) (I D : G) (files : List File) : Edit :=
  mkEdit nm I (treeSum o h files) D [] (files.map (setsumOf o h))

/-- the fragments of a history that rolls over between the segments: each starts with the state -/
def fragmentsOf (o : Ops G) (h : Entry → G) (policy : Blue.Gc.Policy) (nm : G → Name) (I D : G) :
    List File → List (List StoreOp) → List (List Edit)
  | _, [] => []
  | files, seg :: segs =>
    (rollup o h nm I D files :: editsOf o h policy nm files seg)
      :: fragmentsOf o h policy nm I D (finalFiles policy files seg) segs

variable [DecidableEq G]

/-- `LsmVerifier::verify` over fragments in order: each `verify_one` starts from what the one before
    returned (info `O` of `verify/MANIFEST`) -/
def verifyAll (env : Env G) : G → List (List Edit) → Except Fail G
  | acc, [] => .ok acc
  | acc, es :: rest =>
    match verifyFragment env acc es with
    | .error f => .error f
    | .ok acc' => verifyAll env acc' rest

end Blue.VerifyOne
