import Blue.Model.Wire
/-! A schema interpreter for flat prototk messages: what the derive macro's `pack` / `unpack` do for
    a struct whose fields are scalars or byte strings.  (A nested message is a `bytes` field whose
    content is the packing of the inner message — `message<M>` has exactly that wire format.) -/
namespace Blue.Proto
open Blue.Wire

inductive FieldTy where
  | uint64    -- also uint32/int32/int64/bool/enum payloads: a varint
  | bytes     -- bytes, string, nested message
  | fixed32
  | fixed64
deriving DecidableEq, Repr

def FieldTy.wt : FieldTy → WT
  | .uint64 => .varint | .bytes => .lengthDelimited | .fixed32 => .thirtyTwo | .fixed64 => .sixtyFour

inductive Val where
  | num (n : Nat)
  | bytes (b : List Nat)
deriving DecidableEq, Repr

structure Field where
  num : Nat
  ty : FieldTy
deriving DecidableEq, Repr

def leBytes : Nat → Nat → List Nat
  | 0, _ => []
  | k+1, v => (v % 256) :: leBytes k (v / 256)

def fromLe : List Nat → Nat
  | [] => 0
  | b :: bs => b + 256 * fromLe bs

def defaultVal : FieldTy → Val
  | .bytes => .bytes []
  | _ => .num 0

/-- the bytes of one field: tag, then the payload -/
def encField (f : Field) (v : Val) : List Nat :=
  encTag ⟨f.num, f.ty.wt⟩ ++
  match f.ty, v with
  | .uint64, .num n => encVarint n
  | .bytes, .bytes b => encBytes b
  | .fixed32, .num n => leBytes 4 n
  | .fixed64, .num n => leBytes 8 n
  | _, _ => []

/-- the field type's own `unpack`, applied to the slice the field iterator hands over -/
def decPayload (ty : FieldTy) (slice : List Nat) : Option Val :=
  match ty with
  | .uint64 => (decVarint slice).map (fun r => .num r.1)
  | .bytes => (decBytes slice).map (fun r => .bytes r.1)
  | .fixed32 => if slice.length < 4 then none else some (.num (fromLe (slice.take 4)))
  | .fixed64 => if slice.length < 8 then none else some (.num (fromLe (slice.take 8)))

def pack : List Field → List Val → List Nat
  | f :: fs, v :: vs => encField f v ++ pack fs vs
  | _, _ => []

/-- `merge_field`: the field of the schema with this number and wire type, if any, is replaced -/
def mergeInto (schema : List Field) (acc : List Val) (fld : Tag × List Nat) : Option (List Val) :=
  match schema, acc with
  | f :: fs, v :: vs =>
    if f.num = fld.1.num ∧ f.ty.wt = fld.1.wt then (decPayload f.ty fld.2).map (fun v' => v' :: vs)
    else (mergeInto fs vs fld).map (fun vs' => v :: vs')
  | _, _ => some acc     -- unknown field: skipped

def unpack (schema : List Field) (bs : List Nat) : Option (List Val) :=
  let r := fields (bs.length + 1) bs
  match r.1.foldl (fun acc fld => acc.bind (fun a => mergeInto schema a fld)) (some (schema.map (fun f => defaultVal f.ty))) with
  | none => none
  | some vs => if r.2 then none else some vs

end Blue.Proto
