import Blue.Model.BlockSeal
import Blue.Model.SstCur
/-! `SstBuilder`, `SstMultiBuilder`, `divide_keys`, `minimal_successor_key`, the file layout
    (`SstEntry` frames, `BlockMetadata`, `FinalBlock`, `SstMetadata`) and `Sst::{load, metadata}`
    of sst/src/lib.rs.

    Two things enter as parameters: the bytes of the bloom filter block (SipHash-2-4 is not
    modelled; `Sst::load` is modelled under "no false negatives") and the setsum digest (the model
    of C14 computes it from the SHA3 words of the items).  CRC32C is computed here. -/
namespace Blue.Sst
open Blue.Wire Blue.EntryCodec Blue.Block Blue.Cursor

/-! ## CRC32C (Castagnoli, reflected, as the `crc32c` crate computes it) -/
def crcBit (c : Nat) : Nat := if c % 2 = 1 then (c / 2) ^^^ 0x82F63B78 else c / 2

def crcByte (crc byte : Nat) : Nat :=
  crcBit (crcBit (crcBit (crcBit (crcBit (crcBit (crcBit (crcBit (crc ^^^ byte))))))))

def crc32c (bs : List Nat) : Nat := (bs.foldl crcByte 0xFFFFFFFF) ^^^ 0xFFFFFFFF

/-! ## dividing keys -/
/-- `divide_keys`: a key in `[lhs, rhs)` (the code asserts `lhs < rhs`) -/
def divideKeys (kl : List Nat) (tl : Nat) (kr : List Nat) (_tr : Nat) : List Nat × Nat :=
  let shared := sharedLen kl kr
  match kl[shared]?, kr[shared]? with
  | some a, some b => if a + 1 < b then (kl.take shared ++ [a + 1], 0) else (kl, tl)
  | _, _ => (kl, tl)

/-- `minimal_successor_key` -/
def minimalSuccessor (k : List Nat) (t : Nat) : List Nat × Nat :=
  if t = 0 then (k ++ [0], 0) else (k, t - 1)

/-! ## messages -/
structure BlockMeta where
  start : Nat
  limit : Nat
  crc : Nat
deriving DecidableEq, Repr

/-! field numbers, in declaration order (tied to the source by `Blue.ConstsTie`) -/
def BM_START : Nat := 13
def BM_LIMIT : Nat := 14
def BM_CRC : Nat := 15
def SE_PLAIN : Nat := 10
def SE_FILTER : Nat := 13
def SE_FINAL : Nat := 12
def FB_INDEX : Nat := 16
def FB_FILTER : Nat := 17
def FB_SETSUM : Nat := 19
def FB_SMALLEST : Nat := 20
def FB_BIGGEST : Nat := 21
def FB_OFFSET : Nat := 18
def MD_SETSUM : Nat := 1
def MD_FIRST : Nat := 2
def MD_LAST : Nat := 3
def MD_SMALLEST : Nat := 4
def MD_BIGGEST : Nat := 5
def MD_FILE_SIZE : Nat := 6

def encBlockMeta (m : BlockMeta) : List Nat :=
  encTag ⟨BM_START, .varint⟩ ++ encVarint m.start ++ encTag ⟨BM_LIMIT, .varint⟩ ++ encVarint m.limit
    ++ encTag ⟨BM_CRC, .thirtyTwo⟩ ++ le32 m.crc

/-- the fields of `BlockMetadata` read back (`start`, `limit`, `crc32c`), as the derive macro does -/
def mergeBlockMeta (acc : Option BlockMeta) (fld : Tag × List Nat) : Option BlockMeta :=
  match acc with
  | none => none
  | some m =>
    if fld.1.num = BM_START ∧ fld.1.wt = .varint then (decVarint fld.2).map (fun r => { m with start := r.1 })
    else if fld.1.num = BM_LIMIT ∧ fld.1.wt = .varint then (decVarint fld.2).map (fun r => { m with limit := r.1 })
    else if fld.1.num = BM_CRC ∧ fld.1.wt = .thirtyTwo then
      (if fld.2.length = 4 then some { m with crc := unle32 fld.2 } else none)
    else some m

def decBlockMeta (bs : List Nat) : Option BlockMeta :=
  let r := fields (bs.length + 1) bs
  match r.1.foldl mergeBlockMeta (some ⟨0, 0, 0⟩) with
  | none => none
  | some m => if r.2 then none else some m

/-- `SstEntry::{PlainBlock = 10, FinalBlock = 12, FilterBlock = 13}` as written to the file -/
def frame (field : Nat) (bytes : List Nat) : List Nat := encTag ⟨field, .lengthDelimited⟩ ++ encBytes bytes

structure Final where
  index : BlockMeta
  filter : BlockMeta
  setsum : List Nat
  smallest : Nat
  biggest : Nat
  offset : Nat

/-- `stack_pack(final_block)`: fields in declaration order, `final_block_offset` (18) last -/
def encFinal (f : Final) : List Nat :=
  encTag ⟨FB_INDEX, .lengthDelimited⟩ ++ encBytes (encBlockMeta f.index)
    ++ encTag ⟨FB_FILTER, .lengthDelimited⟩ ++ encBytes (encBlockMeta f.filter)
    ++ encTag ⟨FB_SETSUM, .lengthDelimited⟩ ++ encBytes f.setsum
    ++ encTag ⟨FB_SMALLEST, .varint⟩ ++ encVarint f.smallest
    ++ encTag ⟨FB_BIGGEST, .varint⟩ ++ encVarint f.biggest
    ++ encTag ⟨FB_OFFSET, .sixtyFour⟩ ++ le64 f.offset

structure Metadata where
  setsum : List Nat
  firstKey : List Nat
  lastKey : List Nat
  smallest : Nat
  biggest : Nat
  fileSize : Nat
deriving DecidableEq, Repr

/-- `stack_pack(SstMetadata)` -/
def encMetadata (m : Metadata) : List Nat :=
  encTag ⟨MD_SETSUM, .lengthDelimited⟩ ++ encBytes m.setsum
    ++ encTag ⟨MD_FIRST, .lengthDelimited⟩ ++ encBytes m.firstKey
    ++ encTag ⟨MD_LAST, .lengthDelimited⟩ ++ encBytes m.lastKey
    ++ encTag ⟨MD_SMALLEST, .varint⟩ ++ encVarint m.smallest
    ++ encTag ⟨MD_BIGGEST, .varint⟩ ++ encVarint m.biggest
    ++ encTag ⟨MD_FILE_SIZE, .varint⟩ ++ encVarint m.fileSize

def BLOCK_METADATA_MAX_SZ : Nat := 27
def FINAL_BLOCK_MAX_SZ : Nat := 147
def MAX_KEY : List Nat := List.replicate 11 255

/-! ## the builder -/
structure SstOpts where
  blk : Opts
  targetBlockSize : Nat
  bloomBits : Nat
  targetFileSize : Nat

structure SB where
  lastKey : List Nat
  lastTs : Nat
  cur : Option CBuilder
  bytesWritten : Nat
  index : CBuilder
  /-- what went to the file so far: the data block frames' payloads -/
  blocks : List (List Nat)
  /-- `filter.len()`: one deferred insert per accepted entry -/
  count : Nat
  smallest : Nat
  biggest : Nat
  /-- ghost: the entries accepted so far (what `setsum.put` / `setsum.del` were called with) -/
  accepted : List KV
  /-- ghost: the entries of the blocks flushed so far, of the open block, and the index entries -/
  cutE : List (List KV)
  curE : List KV
  divE : List KV

def SB.init : SB := ⟨[], U64MAX, none, 0, CBuilder.init, [], 0, U64MAX, 0, [], [], [], []⟩

/-- `SstBuilder::approximate_size` -/
def SB.approxSize (s : SB) : Nat :=
  s.bytesWritten + (match s.cur with | some c => c.b.approxSize | none => 0)
    + 1 + s.index.b.approxSize + FINAL_BLOCK_MAX_SZ

inductive BuildErr where
  | put (e : PutErr)
  | logic
  /-- `divide_keys` asserts `lhs < rhs` (a panic) -/
  | assert
deriving DecidableEq, Repr

/-- `SstBuilder::flush_block(key, timestamp)` -/
def SB.flush (o : SstOpts) (s : SB) (k : List Nat) (t : Nat) : Except BuildErr SB :=
  match s.cur with
  | none => .error .logic
  | some c =>
    if !keyRefLt s.lastKey s.lastTs k t then .error .assert else
    let bytes := c.b.seal
    let fr := frame SE_PLAIN bytes
    let start := s.bytesWritten
    let limit := start + fr.length
    let value := encBlockMeta ⟨start, limit, crc32c bytes⟩
    let d := divideKeys s.lastKey s.lastTs k t
    match s.index.put o.blk ⟨d.1, d.2, some value⟩ with
    | .error e => .error (.put e)
    | .ok idx => .ok { s with cur := none, bytesWritten := limit, index := idx, blocks := s.blocks ++ [bytes],
                              cutE := s.cutE ++ [s.curE], curE := [], divE := s.divE ++ [⟨d.1, d.2, some value⟩] }

/-- `put` / `del` -/
def SB.put (o : SstOpts) (s : SB) (e : KV) : Except BuildErr SB :=
  match putCheck s.approxSize s.lastKey s.lastTs e with
  | some err => .error (.put err)
  | none =>
    -- get_block
    let s1 : Except BuildErr SB :=
      match s.cur with
      | none => .ok { s with cur := some CBuilder.init }
      | some c =>
        if c.b.approxSize > o.targetBlockSize then
          match s.flush o e.key e.ts with
          | .error x => .error x
          | .ok s' => .ok { s' with cur := some CBuilder.init }
        else .ok s
    match s1 with
    | .error x => .error x
    | .ok s1 =>
      match s1.cur with
      | none => .error .logic
      | some c =>
        match c.put o.blk e with
        | .error err => .error (.put err)
        | .ok c' =>
          .ok { s1 with cur := some c', count := s1.count + 1, lastKey := e.key, lastTs := e.ts,
                        smallest := min s1.smallest e.ts, biggest := max s1.biggest e.ts,
                        accepted := s1.accepted ++ [e], curE := s1.curE ++ [e] }

/-- `Filter::new(count.saturating_mul(bits))`: the filter block's length in bytes -/
def filterLen (count bits : Nat) : Nat :=
  let size := min (count % 4294967296 * bits) 4294967295
  (((min (size + 7) 4294967295) / 8) / 32 + 1) * 32

/-- the pieces of a sealed file -/
structure SstFile where
  blocks : List (List Nat)
  index : List Nat
  filter : List Nat
  fin : Final
  fileSize : Nat

def SstFile.final (f : SstFile) : List Nat := encFinal f.fin

def SstFile.bytes (f : SstFile) : List Nat :=
  (f.blocks.flatMap (frame SE_PLAIN)) ++ frame SE_PLAIN f.index ++ frame SE_FILTER f.filter ++ f.final

/-- `SstBuilder::seal` up to the point where the file is reopened -/
def SB.seal (o : SstOpts) (s : SB) (filter setsum : List Nat) : Except BuildErr SstFile :=
  let s1 : Except BuildErr SB :=
    match s.cur with
    | some _ => let n := minimalSuccessor s.lastKey s.lastTs; s.flush o n.1 n.2
    | none => .ok s
  match s1 with
  | .error x => .error x
  | .ok s1 =>
    let index := s1.index.b.seal
    let f1 := frame SE_PLAIN index
    let im : BlockMeta := ⟨s1.bytesWritten, s1.bytesWritten + f1.length, crc32c index⟩
    let f2 := frame SE_FILTER filter
    let fm : BlockMeta := ⟨im.limit, im.limit + f2.length, crc32c filter⟩
    let (sm, bg) := if s1.smallest > s1.biggest then (0, 0) else (s1.smallest, s1.biggest)
    let fin : Final := ⟨im, fm, setsum, sm, bg, fm.limit⟩
    .ok ⟨s1.blocks, index, filter, fin, fm.limit + (encFinal fin).length⟩

/-! ## the opened table -/
structure Table where
  blocks : List (List KV)
  dividers : List KV
  fileSize : Nat
  setsum : List Nat
  smallest : Nat
  biggest : Nat

def decodeBlock (bytes : List Nat) : Option (List KV) :=
  match Blk.new bytes with
  | .ok b => (b.toDBlock).map (·.entries)
  | _ => none

/-- `Sst::load_block`: the frame at `[start, limit)` of the file, CRC checked, as a block -/
def loadBlockAt (file : List Nat) (m : BlockMeta) : Option (List KV) :=
  if m.start ≥ m.limit then none
  else
    match decTag ((file.drop m.start).take (m.limit - m.start)) with
    | none => none
    | some (tag, rest) =>
      if tag.num = SE_PLAIN ∧ tag.wt = .lengthDelimited then
        match decBytes rest with
        | none => none
        | some (body, _) => if crc32c body = m.crc then decodeBlock body else none
      else none

def dividerMeta (d : KV) : Option BlockMeta :=
  match d.val with
  | none => none
  | some v => decBlockMeta v

/-- `Sst::from_file_handle`: the index block through the final block's metadata, the index
    entries, and (lazily in the code) each data block through its index entry -/
def SstFile.open (f : SstFile) : Option Table :=
  let file := f.bytes
  match loadBlockAt file f.fin.index with
  | none => none
  | some ds =>
    match mapOpt (fun d => (dividerMeta d).bind (loadBlockAt file)) ds with
    | none => none
    | some bs => some ⟨bs, ds, f.fileSize, f.fin.setsum, f.fin.smallest, f.fin.biggest⟩

def Table.cursor (t : Table) : SstCur KV := ⟨t.blocks, t.dividers, 0, none⟩

def sstep (c : SstCur KV) : KOp → SstCur KV
  | .first => c.toFirst
  | .last => c.toLast
  | .next => SstCur.next (c.blocks.length + 2) c
  | .prev => SstCur.prev (c.blocks.length + 2) c
  | .seek k => c.seek (atOrAfter k)

def sscan (k : List Nat) (ts : Nat) : Nat → SstCur KV → SstCur KV
  | 0, c => c
  | f+1, c =>
    match c.kv with
    | some e => if keyRefLt e.key e.ts k ts then sscan k ts f (sstep c .next) else c
    | none => c

/-- `Sst::load`, given that the bloom filter has no false negatives (a negative answer and the
    cursor's answer for an absent key are both "absent") -/
def Table.load (t : Table) (k : List Nat) (ts : Nat) : Loaded :=
  let c := sstep t.cursor (.seek k)
  loadedOf k (sscan k ts (t.blocks.flatten.length + 1) c).kv

/-- `Sst::metadata` -/
def Table.metadata (t : Table) : Metadata :=
  let c := t.cursor
  let f := (sstep (sstep c .first) .next).kv
  let l := (sstep (sstep c .last) .prev).kv
  ⟨t.setsum, (match f with | some e => e.key | none => []), (match l with | some e => e.key | none => MAX_KEY),
   t.smallest, t.biggest, t.fileSize⟩

/-! ## one table, start to end -/
def SB.putAll (o : SstOpts) : SB → List KV → List (Option BuildErr) × SB
  | s, [] => ([], s)
  | s, e :: es =>
    match s.put o e with
    | .error err => let r := SB.putAll o s es; (some err :: r.1, r.2)
    | .ok s' => let r := SB.putAll o s' es; (none :: r.1, r.2)

/-! ## `SstMultiBuilder` -/
/-- the multi-builder's state: the builders sealed so far (in the code they are sealed at the
    roll-over; sealing is a function of the builder, so the model seals them at the end), the open
    builder, and the last key accepted by any of them -/
structure MB where
  sealed : List SB
  cur : Option SB
  lastKey : List Nat
  lastTs : Nat

def MB.init : MB := ⟨[], none, [], U64MAX⟩

/-- `get_builder`: roll over when the open builder has reached the target file size -/
def MB.roll (o : SstOpts) (m : MB) : MB :=
  match m.cur with
  | some s =>
    if s.approxSize ≥ TABLE_FULL_SIZE ∨ s.approxSize ≥ o.targetFileSize then
      { m with sealed := m.sealed ++ [s], cur := none } else m
  | none => m

/-- `put` / `del`: the sizes and the order across files are checked before a roll-over can start a
    new file; a refused entry leaves everything as it is -/
def MB.put (o : SstOpts) (m : MB) (e : KV) : Option BuildErr × MB :=
  match putCheck 0 m.lastKey m.lastTs e with
  | some err => (some (.put err), m)
  | none =>
    let m1 := m.roll o
    let s := match m1.cur with | some s => s | none => SB.init
    match s.put o e with
    | .error err => (some err, { m1 with cur := some s })
    | .ok s' => (none, { m1 with cur := some s', lastKey := e.key, lastTs := e.ts })

/-- `put` / `del` as found (before the repair): each file's builder only knows its own keys, so
    an entry that is out of order with respect to the previous *file* is written -/
def MB.putAsFound (o : SstOpts) (m : MB) (e : KV) : Option BuildErr × MB :=
  let m1 := m.roll o
  let s := match m1.cur with | some s => s | none => SB.init
  match s.put o e with
  | .error err => (some err, { m1 with cur := some s })
  | .ok s' => (none, { m1 with cur := some s' })

def MB.putAll (o : SstOpts) : MB → List KV → List (Option BuildErr) × MB
  | m, [] => ([], m)
  | m, e :: es =>
    let r := m.put o e
    let rest := MB.putAll o r.2 es
    (r.1 :: rest.1, rest.2)

/-- the builders `seal` closes, in file order -/
def MB.files (m : MB) : List SB := m.sealed ++ (match m.cur with | some s => [s] | none => [])

end Blue.Sst
