import Blue.Model.SstOpen
/-! Cursor programs over a table opened from bytes (`Blue.SstOpen.Opened`): the calls of
    `SstCursor` — `seek_to_first`, `seek_to_last`, `next`, `prev`, `seek(key)` — as one step
    function, and a program as the list of observations (`key_value()` after every call).  A call
    that returns an error ends the program (the cursor is not used after an error).

    This is the cursor the C10 driver runs over the *file image the builder model wrote*
    (`SstFile.bytes`), so that the round trip builder → bytes → `Sst::new` → cursor is compared with
    the real code end to end (`Blue.Proofs.SstFile.sst_file_roundtrip` is the theorem). -/
namespace Blue.SstOpen
open Blue.Wire Blue.Block Blue.Sst Blue.Cursor

variable (crc : List Nat → Nat)

/-- one call on the cursor of an opened table -/
def Opened.step (t : Opened) (c : LCur) : KOp → Except Err LCur
  | .first => .ok t.toFirst
  | .last => .ok t.toLast
  | .next => t.next crc c
  | .prev => t.prev crc c
  | .seek k => t.seek crc k

/-- a program: what `key_value()` shows after every call, up to and including the first error -/
def Opened.run (t : Opened) : LCur → List KOp → List (Except Err (Option KV))
  | _, [] => []
  | c, op :: ops =>
    match t.step crc c op with
    | .error e => [.error e]
    | .ok c' => .ok c'.kv :: Opened.run t c' ops

end Blue.SstOpen
