import Blue.Model.SstFile
/-! `SstCursor` over a table opened from bytes, with the data blocks walked by **`BlockCursor`**
    (`Blue.BlockCursor`: restart points, binary search over the restarts, linear scan, the reverse
    step through a restart interval) instead of the reference cursor over the decoded entries that
    `Blue.SstOpen.{nextG, prevG, seekG}` step.

    `Sst::load_block` hands `SstCursor::load_block_cursor` a `Block`; the decoded form of it that
    `BlockCursor` is modelled over is the `DBlock` of `Blk.toDBlock` — the entries **and** the
    restart points as entry indices.  `loadBlockD` keeps that `DBlock` (`loadBlock` keeps only its
    entries); the cursor below calls `BlockCursor.{next, prev, seek}` on it, exactly where the code
    calls `block_cursor.next()`, `.prev()`, `.seek(key)` (sst/src/lib.rs `impl Cursor for SstCursor`).

    Nothing else differs from `Blue.SstOpen`: same index entries, same `seek_index`, same loop
    structure, same error propagation.  `Blue.Proofs.SstFileB` proves that over blocks whose restart
    points are well formed — which builder-written blocks are for restart intervals ≥ 1 — the two
    machines show the same observations, call by call, errors included.

    Not run by the driver (the driver runs `Blue.SstOpen`, which the theorem shows equal on the
    blocks a builder writes); the block-level machine `BlockCursor` is compared with the real
    `BlockCursor` by the block cases of the C10 check. -/
namespace Blue.SstOpen
open Blue.Wire Blue.Block Blue.Sst Blue.Cursor Blue.BlockCursor

/-- `Block::new` and the decoded block (entries and restart indices) a `BlockCursor` walks -/
def decodePlainD (body : List Nat) : Except Err (DBlock KV) :=
  match Blk.new body with
  | .tooSmall | .underflow => .error .blockTooSmall
  | .ok b =>
    match b.toDBlock with
    | some d => .ok d
    | none => .error .hostileBlock

variable (crc : List Nat → Nat)

/-- `Sst::load_block`, keeping the restart points -/
def loadBlockD (file : List Nat) (m : BlockMeta) : Except Err (DBlock KV) :=
  match readFrame crc file m with
  | .error e => .error e
  | .ok (i, body) =>
    if i = 0 then decodePlainD body else if i = 1 then .error .filterAsPlain else .error .finalAsPlain

/-- `load_block_cursor(idx)` -/
def Opened.loadIdxD (t : Opened) (i : Nat) : Except Err (DBlock KV) :=
  match t.entries[i]? with
  | some (_, m) => loadBlockD crc t.file m
  | none => .error .hostileBlock

/-- `SstCursor`: `meta_idx` and the `Option<BlockCursor>` -/
structure BLCur where
  metaIdx : Nat
  bc : Option (BCur KV)

def BLCur.kv (c : BLCur) : Option KV := c.bc.bind BlockCursor.kv

def Opened.toFirstB (_t : Opened) : BLCur := ⟨0, none⟩
def Opened.toLastB (t : Opened) : BLCur := ⟨t.entries.length, none⟩

section generic
variable (n : Nat) (ld : Nat → Except Err (DBlock KV))

/-- `SstCursor::next`: a freshly loaded block cursor is at `seek_to_first`, then `next()` -/
def nextB : Nat → BLCur → Except Err BLCur
  | 0, c => .ok c
  | f + 1, c =>
    match c.bc with
    | none =>
      if c.metaIdx ≥ n then .ok ⟨n, none⟩
      else
        match ld c.metaIdx with
        | .error e => .error e
        | .ok d =>
          let b := BlockCursor.next ⟨d, .first⟩
          if (BlockCursor.kv b).isSome then .ok ⟨c.metaIdx, some b⟩ else nextB f ⟨c.metaIdx + 1, none⟩
    | some b =>
      let b' := BlockCursor.next b
      if (BlockCursor.kv b').isSome then .ok ⟨c.metaIdx, some b'⟩ else nextB f ⟨c.metaIdx + 1, none⟩

/-- `SstCursor::prev`: a freshly loaded block cursor is put at `seek_to_last`, then `prev()` -/
def prevB : Nat → BLCur → Except Err BLCur
  | 0, c => .ok c
  | f + 1, c =>
    match c.bc with
    | none =>
      if c.metaIdx = 0 then .ok ⟨0, none⟩
      else
        match ld (c.metaIdx - 1) with
        | .error e => .error e
        | .ok d =>
          let b := BlockCursor.prev ⟨d, .last⟩
          if (BlockCursor.kv b).isSome then .ok ⟨c.metaIdx - 1, some b⟩ else prevB f ⟨c.metaIdx - 1, none⟩
    | some b =>
      let b' := BlockCursor.prev b
      if (BlockCursor.kv b').isSome then .ok ⟨c.metaIdx, some b'⟩ else prevB f ⟨c.metaIdx, none⟩

/-- `SstCursor::seek`, given `seek_index`'s answer `idx`: `block_cursor.seek(key)` -/
def seekB (idx : Nat) (k : List Nat) : Except Err BLCur :=
  if idx ≥ n then .ok ⟨n, none⟩
  else
    match ld idx with
    | .error e => .error e
    | .ok d =>
      let b := BlockCursor.seek (atOrAfter k) ⟨d, .first⟩
      if (BlockCursor.kv b).isSome then .ok ⟨idx, some b⟩
      else if idx + 1 ≥ n then .ok ⟨n, none⟩
      else
        match ld (idx + 1) with
        | .error e => .error e
        | .ok d' => .ok ⟨idx + 1, some (BlockCursor.seek (atOrAfter k) ⟨d', .first⟩)⟩

/-- walk from the cursor with `next` until the end or an error -/
def walkFwdB : Nat → BLCur → List KV → List KV × Option Err
  | 0, _, acc => (acc.reverse, none)
  | f + 1, c, acc =>
    match nextB n ld (n + 2) c with
    | .error e => (acc.reverse, some e)
    | .ok c' =>
      match c'.kv with
      | none => (acc.reverse, none)
      | some e => walkFwdB f c' (e :: acc)

def walkBwdB : Nat → BLCur → List KV → List KV × Option Err
  | 0, _, acc => (acc.reverse, none)
  | f + 1, c, acc =>
    match prevB ld (n + 2) c with
    | .error e => (acc.reverse, some e)
    | .ok c' =>
      match c'.kv with
      | none => (acc.reverse, none)
      | some e => walkBwdB f c' (e :: acc)

/-- the scan of `Sst::load`: `while key < target { next }` -/
def scanB (k : List Nat) (ts : Nat) : Nat → BLCur → Except Err BLCur
  | 0, c => .ok c
  | f + 1, c =>
    match c.kv with
    | some e =>
      if keyRefLt e.key e.ts k ts then
        match nextB n ld (n + 2) c with
        | .error x => .error x
        | .ok c' => scanB k ts f c'
      else .ok c
    | none => .ok c

/-- `Sst::load` for a key the filter does not rule out -/
def loadB (fuel idx : Nat) (k : List Nat) (ts : Nat) : Except Err Loaded :=
  match seekB n ld idx k with
  | .error e => .error e
  | .ok c =>
    match scanB n ld k ts fuel c with
    | .error e => .error e
    | .ok c' => .ok (loadedOf k c'.kv)

/-- the first and the last key, as `Sst::metadata` finds them -/
def endsB : Except Err (Option KV × Option KV) :=
  match nextB n ld (n + 2) ⟨0, none⟩ with
  | .error e => .error e
  | .ok cf =>
    match prevB ld (n + 2) ⟨n, none⟩ with
    | .error e => .error e
    | .ok cl => .ok (cf.kv, cl.kv)

end generic

def Opened.nextB (t : Opened) (c : BLCur) : Except Err BLCur :=
  SstOpen.nextB t.entries.length (t.loadIdxD crc) (t.entries.length + 2) c
def Opened.prevB (t : Opened) (c : BLCur) : Except Err BLCur :=
  SstOpen.prevB (t.loadIdxD crc) (t.entries.length + 2) c
def Opened.seekB (t : Opened) (k : List Nat) : Except Err BLCur :=
  SstOpen.seekB t.entries.length (t.loadIdxD crc) (t.seekIndex k) k

/-- one call on the cursor of an opened table -/
def Opened.stepB (t : Opened) (c : BLCur) : KOp → Except Err BLCur
  | .first => .ok t.toFirstB
  | .last => .ok t.toLastB
  | .next => t.nextB crc c
  | .prev => t.prevB crc c
  | .seek k => t.seekB crc k

/-- a program: what `key_value()` shows after every call, up to and including the first error -/
def Opened.runB (t : Opened) : BLCur → List KOp → List (Except Err (Option KV))
  | _, [] => []
  | c, op :: ops =>
    match t.stepB crc c op with
    | .error e => [.error e]
    | .ok c' => .ok c'.kv :: Opened.runB t c' ops

def Opened.forwardB (t : Opened) : List KV × Option Err :=
  walkFwdB t.entries.length (t.loadIdxD crc) t.fuel t.toFirstB []
def Opened.backwardB (t : Opened) : List KV × Option Err :=
  walkBwdB t.entries.length (t.loadIdxD crc) t.fuel t.toLastB []

/-- `Sst::load` -/
def Opened.loadB (t : Opened) (k : List Nat) (ts : Nat) : Except Err Loaded :=
  SstOpen.loadB t.entries.length (t.loadIdxD crc) t.fuel (t.seekIndex k) k ts

/-- `Sst::metadata` -/
def Opened.metadataB (t : Opened) : Except Err Metadata :=
  match endsB t.entries.length (t.loadIdxD crc) with
  | .error e => .error e
  | .ok ends => .ok (t.metaOf ends)

end Blue.SstOpen
