import Blue.Model.Cur
/-! `LazyCursor` generic in the cursor it opens (the Rust type is fixed to `SstCursor`; the model is
    generic so that the child can be any cursor that behaves like a table). -/
namespace Blue.Cursor
variable {E : Type}

inductive LPosC (σ : Type) where
  | first
  | last
  | inst (s : σ)

structure LazyS (C : Cur E) where
  /-- what `instantiate()` returns -/
  fresh : C.σ
  pos : LPosC C.σ

namespace LazyC

def settle (C : Cur E) (l : LazyS C) (s : C.σ) (off : LPosC C.σ) : LazyS C :=
  if (C.kv s).isNone then { l with pos := off } else { l with pos := .inst s }

def cur (C : Cur E) : Cur E where
  σ := LazyS C
  first := fun l => { l with pos := .first }
  last := fun l => { l with pos := .last }
  seek := fun p l => settle C l (C.seek p (match l.pos with | .inst s => s | _ => l.fresh)) .last
  prev := fun l => match l.pos with
    | .first => l
    | .last => settle C l (C.prev (C.last l.fresh)) .first
    | .inst s => settle C l (C.prev s) .first
  next := fun l => match l.pos with
    | .first => settle C l (C.next (C.first l.fresh)) .last
    | .last => l
    | .inst s => settle C l (C.next s) .last
  kv := fun l => match l.pos with
    | .inst s => C.kv s
    | _ => none
  ok := fun l => match l.pos with
    | .inst s => C.ok s
    | _ => C.ok l.fresh

end LazyC
end Blue.Cursor
