import Blue.Model.Mani
/-! The offline verifier `lsmtk/src/verifier.rs` (`LsmVerifier`) as a step function over an abstract
    store directory: the names in `sst/` and `trash/`, the numbered manifest fragments `mani/MANIFEST.<n>`
    with their edits, the live `mani/MANIFEST`, and the verifier's own manifest in `verify/` (the
    names it is about to unlink, the number of the last fragment whose intent it logged — info `M` —
    and the accumulated setsum — info `O`).

    One pass (`LsmVerifier::verify`) is a list of *durable actions* (`Act`): unlink a fragment,
    unlink one trash entry, and the two edits of the verifier's manifest (log the intent; clear it).
    Everything else the pass does (reading, checking, the roll-over of `verify/MANIFEST`) changes
    nothing the abstraction sees.  A crash after `k` actions is `run d (acts.take k)`; the restart
    is a new pass from that directory (`possibly_complete_processing` runs first, on every entry).

    Edits and strings are those of `Blue.Mani` (names are byte strings). -/
namespace Blue.Verifier
open Blue.Mani

abbrev Name := List Nat

def sstSuffix : Name := [46, 115, 115, 116]      -- ".sst"
def logPrefix : Name := [108, 111, 103, 46]      -- "log."

/-- `Edit::get_info` on an edit as it is read back: a later line for a key replaces an earlier one -/
def getInfo (e : Edit) (k : Nat) : Option (List Nat) :=
  (e.info.reverse.find? (fun kv => kv.1 == k)).map (·.2)

/-- `str::parse::<u64>`: an optional `+`, at least one digit (overflow is not modelled) -/
def parseU64 (s : List Nat) : Option Nat :=
  let ds := match s with
    | 43 :: t => t
    | _ => s
  if ds.isEmpty || !ds.all (fun b => decide (48 ≤ b) && decide (b ≤ 57)) then none
  else some (ds.foldl (fun acc b => acc * 10 + (b - 48)) 0)

def decimal (n : Nat) : Name := (Nat.toDigits 10 n).map Char.toNat
/-- basename of `TRASH_SST(root, setsum)` -/
def trashSst (d : Name) : Name := d ++ sstSuffix
/-- basename of `TRASH_LOG(root, number)` -/
def trashLog (n : Nat) : Name := logPrefix ++ decimal n

/-- `verify_one`, the SSTs of one edit: everything it removes and does not add again itself (a
    compaction that reproduced one of its inputs leaves that file in place) -/
def editSsts (e : Edit) : List Name := (e.rm.filter (fun x => !e.add.contains x)).map trashSst

/-- `ssts_to_remove` of a fragment: every edit contributes, the first one included -/
def fragSsts (es : List Edit) : List Name := es.flatMap editSsts

/-- `logs_to_remove`: the `L` fields (`none` = one of them does not parse: corruption) -/
def editLogs : List Edit → Option (List Name)
  | [] => some []
  | e :: t =>
    match getInfo e 76 with
    | none => editLogs t
    | some v =>
      match parseU64 v, editLogs t with
      | some n, some l => some (trashLog n :: l)
      | _, _ => none

/-- the digests an edit removes and does not add again itself -/
def removedBy (e : Edit) : List Name := e.rm.filter (fun x => !e.add.contains x)

/-- `ssts_to_remove` as repaired (D-28): a file that a later edit removes again — later in this
    fragment, or in `later`: the removals of the fragments after this one and of `MANIFEST` — is
    that edit's trash (`last_removals`); files are named after their contents, a compaction can
    write a removed file again, and there is one copy of it in `trash/` -/
def fragSstsLast (later : List Name) : List Edit → List Name
  | [] => []
  | e :: t =>
    ((removedBy e).filter (fun r => !(t.flatMap removedBy).contains r && !later.contains r)).map trashSst
      ++ fragSstsLast later t

/-- the basenames `process_one` looks for in `trash/`, in the order it looks for them: the SSTs of
    all edits, then the logs of all edits but the first.  `asWas`: the list as the code had it
    before the repair of D-28 (every removal, whatever comes later). -/
def plan (asWas : Bool) (later : List Name) (es : List Edit) : Option (List Name) :=
  (editLogs (es.drop 1)).map ((if asWas then fragSsts es else fragSstsLast later es) ++ ·)

/-- what `verify_one` decides beyond the two lists: the setsum checks.  `check acc edits` is the new
    accumulator, or `none` for a corruption error.  `asWas` selects the plan of the code before the
    repair of D-28. -/
structure Checker (A : Type) where
  check : A → List Edit → Option A
  asWas : Bool := false

structure Dir (A : Type) where
  /-- digests with a file in `sst/` -/
  sst : List Name
  /-- basenames in `trash/` -/
  trash : List Name
  /-- `mani/MANIFEST.<n>`, ascending `n`, with the edits each holds -/
  frags : List (Nat × List Edit)
  /-- `mani/MANIFEST` -/
  live : List Edit
  /-- `verify/` manifest: its strings (a sorted set), info `M` (as a fragment number), info `O` -/
  vstrs : List Name
  vM : Option Nat
  vO : A
  /-- history variable (not on disk): the fragments whose intent was logged, with the accumulator
      they were checked against -/
  done : List (Nat × List Edit × A)

inductive Act (A : Type) where
  /-- `remove_file(MANIFEST.<n>)` -/
  | unlinkFrag (n : Nat)
  /-- `remove_file(trash/<x>)` -/
  | unlinkTrash (x : Name)
  /-- the edit that removes every logged name from the verifier's manifest -/
  | clear
  /-- the edit that logs the names, `O` and `M` (step 4) -/
  | intent (n : Nat) (es : List Edit) (names : List Name) (o : A)

variable {A : Type}

def Dir.apply (d : Dir A) : Act A → Dir A
  | .unlinkFrag n => { d with frags := d.frags.filter (fun f => f.1 != n) }
  | .unlinkTrash x => { d with trash := d.trash.filter (fun y => y != x) }
  | .clear => { d with vstrs := [] }
  | .intent n es names o =>
    { d with vstrs := names.foldl (fun acc x => insertStr x acc) d.vstrs, vM := some n, vO := o,
             done := d.done ++ [(n, es, d.vO)] }

def run (d : Dir A) (acts : List (Act A)) : Dir A := acts.foldl Dir.apply d

inductive Status where
  | ok
  | backoff (x : Name)
  | corrupt
  | panic
deriving DecidableEq, Repr

/-- `possibly_complete_processing(entry n)`: `none` = "clean up saw log out of order" -/
def completeActs (d : Dir A) (n : Nat) : Option (List (Act A)) :=
  match d.vM with
  | none => some []
  | some m =>
    if n < m then none
    else some ((if m = n ∧ d.frags.any (fun f => f.1 == n) then [Act.unlinkFrag n] else [])
      ++ (d.vstrs.filter (fun x => d.trash.contains x)).map Act.unlinkTrash ++ [Act.clear])

/-- the digests removed by the fragments numbered above `n` and by `MANIFEST`: what `last_removals`
    knows of the edits after fragment `n` -/
def laterRm (d : Dir A) (n : Nat) : List Name :=
  (d.frags.filter (fun f => decide (n < f.1))).flatMap (fun f => f.2.flatMap removedBy) ++ d.live.flatMap removedBy

/-- `verify_contents` / `verify_gc` open every file an edit other than the first adds or removes,
    in `trash/` or else in `sst/` (`get_cursor`); a file in neither is an error, not a backoff -/
def readable (d : Dir A) (es : List Edit) : Bool :=
  (es.drop 1).all (fun e => (e.add ++ e.rm).all (fun r => d.trash.contains (trashSst r) || d.sst.contains r))

/-- `verify_one`'s verdict: the files it reads are there and the setsum checks pass -/
def checkAll (C : Checker A) (d : Dir A) (es : List Edit) : Option A :=
  if readable d es then C.check d.vO es else none

/-- `process_one(entry n)` with the edits `es` the entry holds: the durable actions and how it returns -/
def processOne (C : Checker A) (d : Dir A) (n : Nat) (es : List Edit) : List (Act A) × Status :=
  match completeActs d n with
  | none => ([], .corrupt)
  | some a1 =>
    let d1 := run d a1
    if d.vM = some n then (a1, .ok)
    else if d1.vstrs ≠ [] then (a1, .panic)          -- assert!(self.mani.strs().count() == 0)
    else
      match checkAll C d1 es, plan C.asWas (laterRm d1 n) es with
      | some o, some names =>
        match names.find? (fun x => !d1.trash.contains x) with
        | some x => (a1, .backoff x)
        | none =>
          let i := Act.intent n es names o
          match completeActs (d1.apply i) n with
          | some a2 => (a1 ++ i :: a2, .ok)
          | none => (a1 ++ [i], .corrupt)            -- not reachable: `M` is `n` now
      | _, _ => (a1, .corrupt)

/-- the entries of one pass in order; processing stops at the first that does not return `Ok` -/
def passFrom (C : Checker A) : Dir A → List (Nat × List Edit) → List (Act A) × Status
  | _, [] => ([], .ok)
  | d, (n, es) :: rest =>
    let r := processOne C d n es
    match r.2 with
    | .ok => let r' := passFrom C (run d r.1) rest; (r.1 ++ r'.1, r'.2)
    | st => (r.1, st)

/-- `list_mani_fragments` then `pop(); pop()`: MANIFEST and the highest-numbered fragment stay -/
def entries (d : Dir A) : List (Nat × List Edit) := d.frags.dropLast

/-- `LsmVerifier::verify` -/
def pass (C : Checker A) (d : Dir A) : List (Act A) × Status := passFrom C d (entries d)

/-- what a pass that has at least one entry does before anything else when an intent is pending:
    unlink the fragment named by `M` if it is still there, unlink the logged names, clear the log -/
def finish (d : Dir A) : Dir A :=
  { d with
    frags := match d.vM with
      | some m => d.frags.filter (fun f => f.1 != m)
      | none => d.frags
    trash := d.trash.filter (fun x => !d.vstrs.contains x)
    vstrs := [] }

/-! The checker the correspondence runs use: digests are opaque tokens; of `verify_one`'s setsum
    checks it keeps the chaining (first edit `O` = accumulator, every later edit `I` = accumulator,
    which then becomes that edit's `O`) and the presence of `I`, `O`, `D`; the balance equations
    `I = O + D`, `D = Σ removed − Σ added` and the contents checks are the subject of C04. -/

def chainGo (acc : Name) : List Edit → Option Name
  | [] => some acc
  | e :: t =>
    match getInfo e 73, getInfo e 79, getInfo e 68 with
    | some i, some o, some _ => if i = acc then chainGo o t else none
    | _, _, _ => none

def chainCheck (acc : Name) : List Edit → Option Name
  | [] => none
  | e :: t =>
    match getInfo e 73, getInfo e 79, getInfo e 68 with
    | some _, some o, some _ => if o = acc then chainGo acc t else none
    | _, _, _ => none

def chainChecker : Checker Name := ⟨chainCheck, false⟩
/-- the same checks with the plan of the code before the repair of D-28 -/
def chainCheckerAsWas : Checker Name := ⟨chainCheck, true⟩

end Blue.Verifier
