/-! The window between `compaction_finish` linking an output into `sst/` and `install_version`
    taking the new version's references (lsmtk/src/tree/mod.rs), file by file: the per-file
    reference count of `ReferenceCounter`, `sst/` and `trash/`.

    `link x`: `hard_link(output, sst/x)`, where `AlreadyExists` counts as success — a file of that
    name (that is, of those contents) may still be in `sst/` although no version lists it, held
    there by a reader's snapshot.  As the code is (`pin = false`) the link takes no reference; as
    repaired (`pin = true`, `ReferenceCounter::inc_then`) it takes one, dropped again (`unref`) once
    the new version is installed.  `ref x`: `explicit_ref` of one file of a version being installed.
    `unref x`: one holder of `x` lets go (`explicit_unref` / `dec`): the last one renames the file to
    `trash/`. -/
namespace Blue.FileLink

structure St (F : Type) where
  refs : F → Nat
  sst : List F
  trash : List F

inductive Ev (F : Type) where
  | link (x : F)
  | ref (x : F)
  | unref (x : F)
deriving Repr

variable {F : Type} [DecidableEq F]

def bump (r : F → Nat) (x : F) : F → Nat := fun y => if y = x then r y + 1 else r y
def drop1 (r : F → Nat) (x : F) : F → Nat := fun y => if y = x then r y - 1 else r y

def step (pin : Bool) (s : St F) : Ev F → St F
  | .link x =>
    { s with sst := if x ∈ s.sst then s.sst else x :: s.sst, refs := if pin then bump s.refs x else s.refs }
  | .ref x => { s with refs := bump s.refs x }
  | .unref x =>
    if s.refs x = 0 then s                                  -- `Entry::Vacant`: nothing to drop
    else if s.refs x = 1 then                               -- the last reference: rename to trash/
      { refs := drop1 s.refs x, sst := s.sst.filter (· ≠ x), trash := if x ∈ s.sst then x :: s.trash else s.trash }
    else { s with refs := drop1 s.refs x }

def run (pin : Bool) (s : St F) (evs : List (Ev F)) : St F := evs.foldl (step pin) s

end Blue.FileLink
