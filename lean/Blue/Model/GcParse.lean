import Blue.Model.Gc
/-! The textual policy language of `sst/src/gc.rs` (`TryFrom<&str> for GarbageCollectionPolicy`),
    combinator by combinator as the nom-7 parser is written: `tag`, `multispace0`, `digit1`,
    `opt`, `recognize`, `map_res`, `cut`, `context`, `alt`, `separated_list0`, `terminated`,
    `all_consuming` with `VerboseError`.  Input is the UTF-8 byte string; a position is recorded as
    the length of the remaining input (nom keeps the remaining slice).

    An error is the `VerboseError` list (innermost first) plus whether it is `Err::Failure`
    (after a `cut`) or `Err::Error` (recoverable: `alt` tries the next branch, `opt` and
    `separated_list0` stop quietly).  Only `Context` entries are printed by
    `interpret_verbose_error` (`Nom(_)` kinds are swallowed, `Char` never occurs). -/
namespace Blue.Gc.Parse

structure PErr where
  fatal : Bool
  /-- `(remaining length, some context | none = a swallowed Nom kind)` -/
  errs : List (Nat × Option String)

abbrev Res (α : Type) := Except PErr (α × List Nat)

def isWs (b : Nat) : Bool := b = 32 || b = 9 || b = 13 || b = 10      -- `multispace0`
def isDigit (b : Nat) : Bool := 48 ≤ b && b ≤ 57                      -- `digit1`

def ws0 (i : List Nat) : List Nat := i.dropWhile isWs

/-- the bytes of a tag; every tag of the grammar is ASCII, where code points are the UTF-8 bytes -/
def bytesOf (s : String) : List Nat := s.toList.map (·.toNat)

/-- the keywords (`tag("…")` with a word) and the `context("…")` names of gc.rs, in source order;
    tied to the source by `Blue.ConstsTie.gc_keywords` / `gc_contexts` -/
def kwVersions := "versions"
def kwTtl := "ttl_micros"
def kwAny := "any"
def kwAll := "all"
def ctxNumber := "number literal"
def ctxVersions := "versions"
def ctxExpires := "expires"
def ctxAny := "any"
def ctxAll := "all"
def ctxPolicy := "garbage collection policy"
def keywords : List String := [kwVersions, kwTtl, kwAny, kwAll]
def contexts : List String := [ctxNumber, ctxVersions, ctxExpires, ctxAny, ctxAll, ctxPolicy]

def nomErr (i : List Nat) : PErr := ⟨false, [(i.length, none)]⟩

/-- `tag(t)` -/
def tag (t : String) (i : List Nat) : Res Unit :=
  if (bytesOf t).isPrefixOf i then .ok ((), i.drop (bytesOf t).length) else .error (nomErr i)

/-- `cut(p)`: `Err::Error` becomes `Err::Failure` -/
def cut {α : Type} (r : Res α) : Res α :=
  match r with
  | .error e => .error { e with fatal := true }
  | .ok x => .ok x

/-- `context(name, p)(i)`: append `(i, Context(name))` to whatever error comes up -/
def context {α : Type} (name : String) (i : List Nat) (r : Res α) : Res α :=
  match r with
  | .error e => .error { e with errs := e.errs ++ [(i.length, some name)] }
  | .ok x => .ok x

def digitsVal (ds : List Nat) : Nat := ds.foldl (fun a d => 10 * a + (d - 48)) 0

/-- `number_literal`: `context("number literal", map_res(recognize(tuple((opt(tag("-")), digit1))),
    parse_number))`; `str::parse::<u64>` rejects a sign `-`, overflow; zero is rejected by
    `NonZeroU64::new` -/
def numberLiteral (i : List Nat) : Res Nat :=
  context ctxNumber i <|
    let neg := i.head? = some 45
    let i1 := if neg then i.drop 1 else i
    let ds := i1.takeWhile isDigit
    if ds.isEmpty then .error (nomErr i1)
    else if neg then .error (nomErr i)
    else if digitsVal ds = 0 ∨ 18446744073709551616 ≤ digitsVal ds then .error (nomErr i)
    else .ok (digitsVal ds, i1.drop ds.length)

/-- `versions` / `expires`: `tuple((ws0, tag(kw), cut(ws0), cut(tag("=")), cut(ws0),
    cut(number_literal), cut(ws0)))` under `context(ctx, …)` -/
def keyEqNumber (ctx kw : String) (i : List Nat) : Res Nat :=
  context ctx i <|
    match tag kw (ws0 i) with
    | .error e => .error e
    | .ok (_, i2) =>
      match cut (tag "=" (ws0 i2)) with
      | .error e => .error e
      | .ok (_, i3) =>
        match cut (numberLiteral (ws0 i3)) with
        | .error e => .error e
        | .ok (n, i4) => .ok (n, ws0 i4)

mutual
/-- `gc_policy`: `context("garbage collection policy", alt((versions, expires, any, all)))`;
    `VerboseError::or` keeps the *last* branch's error and `alt` appends `Nom(Alt)` -/
def gcPolicy : Nat → List Nat → Res Policy
  | 0, i => .error (nomErr i)
  | fuel + 1, i =>
    context ctxPolicy i <|
      match keyEqNumber ctxVersions kwVersions i with
      | .ok (n, r) => .ok (.versions n, r)
      | .error e1 =>
        if e1.fatal then .error e1 else
        match keyEqNumber ctxExpires kwTtl i with
        | .ok (n, r) => .ok (.expires n, r)
        | .error e2 =>
          if e2.fatal then .error e2 else
          match group ctxAny kwAny fuel i with
          | .ok (ps, r) => .ok (.any ps, r)
          | .error e3 =>
            if e3.fatal then .error e3 else
            match group ctxAll kwAll fuel i with
            | .ok (ps, r) => .ok (.all ps, r)
            | .error e4 =>
              if e4.fatal then .error e4 else .error { e4 with errs := e4.errs ++ [(i.length, none)] }

/-- `any` / `all`: `tuple((ws0, tag(kw), cut(ws0), cut(tag("(")), cut(ws0),
    terminated(separated_list0(tag(","), gc_policy), opt(tag(","))), cut(ws0), cut(tag(")")),
    cut(ws0)))` under `context(kw, …)` -/
def group (ctx kw : String) : Nat → List Nat → Res (List Policy)
  | 0, i => .error (nomErr i)
  | fuel + 1, i =>
    context ctx i <|
      match tag kw (ws0 i) with
      | .error e => .error e
      | .ok (_, i2) =>
        match cut (tag "(" (ws0 i2)) with
        | .error e => .error e
        | .ok (_, i3) =>
          match sepList0 fuel (ws0 i3) with
          | .error e => .error e
          | .ok (ps, i4) =>
            -- `opt(tag(","))`
            let i5 := match tag "," i4 with
              | .ok (_, r) => r
              | .error _ => i4
            match cut (tag ")" (ws0 i5)) with
            | .error e => .error e
            | .ok (_, i6) => .ok (ps, ws0 i6)

/-- `separated_list0(tag(","), gc_policy)`: the first element -/
def sepList0 : Nat → List Nat → Res (List Policy)
  | 0, i => .error (nomErr i)
  | fuel + 1, i =>
    match gcPolicy fuel i with
    | .error e => if e.fatal then .error e else .ok ([], i)
    | .ok (p, i1) =>
      match sepMore fuel i1 with
      | .error e => .error e
      | .ok (ps, r) => .ok (p :: ps, r)

/-- … and the loop: a separator, then an element; when the element fails recoverably the list
    ends *before* the separator -/
def sepMore : Nat → List Nat → Res (List Policy)
  | 0, i => .error (nomErr i)
  | fuel + 1, i =>
    match tag "," i with
    | .error _ => .ok ([], i)
    | .ok (_, i1) =>
      match gcPolicy fuel i1 with
      | .error e => if e.fatal then .error e else .ok ([], i)
      | .ok (p, i2) =>
        match sepMore fuel i2 with
        | .error e => .error e
        | .ok (ps, r) => .ok (p :: ps, r)
end

/-- `parse_all(gc_policy)`: `all_consuming` adds `Nom(Eof)` when input is left over -/
def parsePolicy (input : List Nat) : Except PErr Policy :=
  match gcPolicy (2 * input.length + 4) input with
  | .error e => .error e
  | .ok (p, rest) => if rest.isEmpty then .ok p else .error (nomErr rest)

/-- what `interpret_verbose_error` prints for one entry: the context, the 1-based line number
    and the 1-based column of the caret -/
def lineCol (input : List Nat) (remaining : Nat) : Nat × Nat :=
  let offset := input.length - remaining
  let pre := input.take offset
  let line := (pre.filter (· = 10)).length + 1
  let sinceNl := (pre.reverse.takeWhile (· ≠ 10)).length
  (line, sinceNl + 1)

end Blue.Gc.Parse
