import Blue.Model.BitVec
/-! `scrunch::bit_vector::sparse::BitVector` (`scrunch/src/bit_vector/sparse.rs`): the B-tree of
    set-bit positions built by `from_indices` and read by `access_rank` / `access` / `rank` /
    `select`, with `scrunch::binary_search::binary_search_by`.

## What follows the code

* `from_indices`: the argument checks (`4 ≤ branch < 256`, `len ≥` last index, strictly increasing);
  the leaf loop (`leafChunks`: push every index into `leaves`, emit a leaf when `leaves.len() ≥ branch`,
  emit the rest at the end); level-1 `dividers` (last index of each leaf) and `pointers`; the
  `while pointers.len() > 1` loop (`levelLoop`) whose body (`groupLoop`) cuts full groups while
  `idx + branch < pointers.len()` (pushing `dividers[idx + branch - 1]` upwards and writing
  `dividers[idx..idx+branch-1]`, `pointers[idx..idx+branch]`) and then the last group of
  `amt = pointers.len() - idx` children (`dividers[idx..idx+amt-1]`, `pointers[idx..idx+amt]`, no
  divider pushed upwards); `levels` starts at 1 and counts the rounds.
* `push_slice_u64(branch, values)` read back by `parse_slice_u64(branch)` (`pushSlice`): the base
  `values[0]`, then `values.len()-1` deltas `value - base`, then zero padding up to `branch - 1`
  deltas; the EMPTY slice (the divider slice of a group with a single child) has base `u64::MAX`
  and zero-width words, so every delta loads as 0.
* `new`: `skip_factors` = `branch^(levels-1)`, divided by `branch` until it is `≤ 1`, last popped.
* `Internal::position` (`base ≥ x` → child 0, else `binary_search_by(0, branch-2, …)` over the delta
  words with `load == 0 ⇒ Greater`, early return on `Equal`; the pointer delta it then loads is
  NOT checked for zero: a zero delta gives `pointer_base + 0`, i.e. child 0), `Internal::pointer`
  (index 0 = base, else the delta, `None` when it is 0 or cannot be loaded), `Leaf::access_rank`
  (the scan `word >= x || load == 0`, `(false, branch)` at the end), `Leaf::select`, and the four
  public operations including the `x > len` / `x >= len` / `x == 0` / `levels == 0` guards and
  `select`'s repeated subtraction.
* `binary_search_by` (`binarySearchBy`): the loop takes fuel.

## What is abstracted (stays tied by the correspondence run only)

* Bytes.  A slice is `(base, deltas)` as `parse_slice_u64` hands it to `Leaf` / `Internal`; the
  v64 base, the `bits_required` width, the bit packing of `push_bits` / `BitArray::load` /
  `FixedWidthIterator` and the 9-byte root trailer are not modelled.  Consequently also not
  modelled, and both observed on the real code:
  - `FixedWidthIterator::new`'s `assert!(width <= 32)` in `Leaf::access_rank`: a leaf whose last
    index is `2^32` or more above its first is written with 33+ bit words and cannot be scanned
    (`from_indices(4, 2^32+1, [0, 2^32])` succeeds, then `rank(1)` panics).  The model, and the
    theorems, speak for the code only when every leaf spans less than `2^32`, e.g. `len ≤ 2^32`;
  - `usize` overflow of `i * self.bits` in `Leaf::select` / `Internal::pointer` for arguments
    near `2^63` (on `from_indices(4, 10, [1, 3])`, `select(2^63+2)` panics with overflow checks and
    returns `Some(4)` without; the model says `None`).
  All numbers are `Nat`; the only place where the 64-bit width shows is the base `u64::MAX` of an
  empty slice (`u64Max`).
* Pointers.  A pointer is a byte offset in the code; here it is the node it points to.  A pointer
  slice `pointers[idx..idx+amt]` is `ptrBase` (the first child) plus `branch - 1` deltas, `some
  child` for a real (non-zero) delta and `none` for a zero delta (padding).  `load_internal` /
  `load_leaf` on a pointer become pattern matches; on a node of the other kind they give `none`
  (the code would mis-parse bytes; it never happens, `levels` fixes the depth of every leaf).
* `dividers[idx + branch - 1]` and `.unwrap()` of an in-range `load` are `getD … 0`: the code would
  panic if they were out of range; the proofs show they are in range.
* Loop variables: `idx` of the grouping loop is carried as the suffixes `dividers[idx..]`,
  `pointers[idx..]`; the leaf loop returns the leaves' contents, of which level-1 `dividers` and
  `pointers` are the two maps. -/
namespace Blue.BvSparse

/-- a parsed slice: `base`, then the `branch - 1` delta words (`BitArray`) -/
structure Slice where
  base : Nat
  deltas : List Nat
deriving Repr, DecidableEq

def u64Max : Nat := 18446744073709551615

/-- `push_slice_u64(bytes, branch, values)` as seen by `parse_slice_u64(branch, …)` -/
def pushSlice (branch : Nat) : List Nat → Slice
  | [] => ⟨u64Max, List.replicate (branch - 1) 0⟩
  | v0 :: rest => ⟨v0, rest.map (fun v => v - v0) ++ List.replicate (branch - 1 - rest.length) 0⟩

/-- a node as `load_leaf` / `load_internal` see it -/
inductive Node where
  | leaf (words : Slice)
  | node (dividers : Slice) (ptrBase : Node) (ptrDeltas : List (Option Node))

/-- `push_slice_u64(bytes, branch - 1, dividers); push_slice_u64(bytes, branch, pointers)` with
    `pointers = p0 :: ps` -/
def mkInternal (branch : Nat) (dividers : List Nat) (p0 : Node) (ps : List Node) : Node :=
  .node (pushSlice (branch - 1) dividers) p0 (ps.map some ++ List.replicate (branch - 1 - ps.length) none)

/-! ### `from_indices` -/

/-- the `for index in indices` loop with its `leaves` buffer (`acc`), and the final
    `if !leaves.is_empty()`: the contents of the leaves, in order -/
def leafChunks (branch : Nat) : List Nat → List Nat → List (List Nat)
  | [], acc => if acc.isEmpty then [] else [acc]
  | i :: rest, acc =>
    if (acc ++ [i]).length ≥ branch then (acc ++ [i]) :: leafChunks branch rest []
    else leafChunks branch rest (acc ++ [i])

/-- one round of the `while pointers.len() > 1` loop: `(new_dividers, new_pointers)`.  The
    arguments are `dividers[idx..]` and `pointers[idx..]`. -/
def groupLoop (branch : Nat) : Nat → List Nat → List Node → List Nat × List Node
  | 0, _, _ => ([], [])
  | _ + 1, _, [] => ([], [])
  | f + 1, divs, p0 :: ps =>
    if branch < ps.length + 1 then
      -- `while idx + branch < pointers.len()`
      let r := groupLoop branch f (divs.drop branch) (ps.drop (branch - 1))
      (divs.getD (branch - 1) 0 :: r.1, mkInternal branch (divs.take (branch - 1)) p0 (ps.take (branch - 1)) :: r.2)
    else
      -- `amt = pointers.len() - idx > 0`
      ([], [mkInternal branch (divs.take ps.length) p0 ps])

/-- `while pointers.len() > 1 { …; levels += 1 }` -/
def levelLoop (branch : Nat) : Nat → List Nat → List Node → Nat → List Node × Nat
  | 0, _, ptrs, levels => (ptrs, levels)
  | f + 1, divs, ptrs, levels =>
    if ptrs.length > 1 then
      let r := groupLoop branch ptrs.length divs ptrs
      levelLoop branch f r.1 r.2 (levels + 1)
    else (ptrs, levels)

/-- the `zip(indices[..n-1], indices[1..])` check -/
def strictlyIncreasing : List Nat → Bool
  | a :: b :: rest => a < b && strictlyIncreasing (b :: rest)
  | _ => true

/-- `from_indices`: `none` where the code returns `None`; otherwise `Root { node, levels }`
    (`node` is `none` when there are no indices: `levels = 0`) -/
def fromIndices (branch len : Nat) (indices : List Nat) : Option (Option Node × Nat) :=
  if ¬ (4 ≤ branch ∧ branch < 256) then none
  else if indices.isEmpty then some (none, 0)
  else if len < indices.getLastD 0 then none
  else if ! strictlyIncreasing indices then none
  else
    let chunks := leafChunks branch indices []
    let r := levelLoop branch chunks.length (chunks.map (fun c => c.getLastD 0))
      (chunks.map (fun c => Node.leaf (pushSlice branch c))) 1
    match r.1 with
    | [root] => some (some root, r.2)   -- `assert_eq!(1, pointers.len())`
    | _ => none

/-! ### `new` -/

/-- `while last > 1 { push(last / branch) }` starting from `[cur]` -/
def skipLoop (branch : Nat) : Nat → Nat → List Nat
  | 0, cur => [cur]
  | f + 1, cur => if cur > 1 then cur :: skipLoop branch f (cur / branch) else [cur]

def skipFactors (branch levels : Nat) : List Nat :=
  if levels > 0 then (skipLoop branch levels (branch ^ (levels - 1))).dropLast else []

structure T where
  length : Nat
  branch : Nat
  root : Option Node
  levels : Nat
  skipFactors : List Nat

def build (branch len : Nat) (indices : List Nat) : Option T :=
  match fromIndices branch len indices with
  | none => none
  | some (root, levels) => some ⟨len, branch, root, levels, skipFactors branch levels⟩

def len (t : T) : Nat := t.length

/-! ### queries -/

/-- `binary_search_by(first, last, search)` -/
def binarySearchBy (search : Nat → Ordering) : Nat → Nat → Nat → Nat
  | 0, left, _ => left
  | f + 1, left, right =>
    if left < right then
      let mid := left + (right - left) / 2
      match search mid with
      | .lt => binarySearchBy search f (mid + 1) right
      | .gt => binarySearchBy search f left mid
      | .eq => mid
    else left

/-- the comparison closure of `Internal::position` -/
def positionCmp (dividers : Slice) (x : Nat) (mid : Nat) : Ordering :=
  let load := dividers.deltas.getD mid 0
  if load = 0 then .gt else compare (dividers.base + load) x

/-- `Internal::position`: `(offset, pointer)` -/
def position (branch : Nat) (dividers : Slice) (ptrBase : Node) (ptrDeltas : List (Option Node))
    (x : Nat) : Option (Nat × Node) :=
  if dividers.base ≥ x then some (0, ptrBase)
  else
    let idx := binarySearchBy (positionCmp dividers x) branch 0 (branch - 2)
    match ptrDeltas[idx]? with
    | none => none                        -- `pointers.load(..)?`
    | some none => some (idx + 1, ptrBase)  -- zero delta, unchecked: `pointer_base + 0`
    | some (some p) => some (idx + 1, p)

/-- `Internal::pointer` -/
def pointer (ptrBase : Node) (ptrDeltas : List (Option Node)) (index : Nat) : Option Node :=
  if index = 0 then some ptrBase
  else
    match ptrDeltas[index - 1]? with
    | none => none
    | some none => none
    | some (some p) => some p

/-- the `for (idx, load) in iter.enumerate()` loop of `Leaf::access_rank` -/
def leafScan (branch base x : Nat) : List Nat → Nat → Bool × Nat
  | [], _ => (false, branch)
  | load :: rest, idx =>
    if base + load ≥ x ∨ load = 0 then (base + load == x, idx + 1)
    else leafScan branch base x rest (idx + 1)

/-- `Leaf::access_rank` -/
def leafAccessRank (branch : Nat) (leaf : Slice) (x : Nat) : Bool × Nat :=
  if leaf.base ≥ x then (leaf.base == x, 0) else leafScan branch leaf.base x leaf.deltas 0

/-- `Leaf::select` -/
def leafSelect (leaf : Slice) (index : Nat) : Option Nat :=
  if index = 0 then some (leaf.base + 1)
  else
    match leaf.deltas[index - 1]? with
    | none => none
    | some delta => if delta > 0 then some (leaf.base + delta + 1) else none

/-- the `for skip_factor in skip_factors` loop of `access_rank`, then the leaf -/
def accessRankFrom (branch : Nat) : List Nat → Node → Nat → Nat → Option (Bool × Nat)
  | [], nd, x, cum =>
    match nd with
    | .leaf words => let (a, r) := leafAccessRank branch words x; some (a, cum + r)
    | .node _ _ _ => none
  | skip :: skips, nd, x, cum =>
    match nd with
    | .leaf _ => none
    | .node d p0 ps =>
      match position branch d p0 ps x with
      | none => none
      | some (offset, ptr) => accessRankFrom branch skips ptr x (cum + offset * skip)

def accessRank (t : T) (x : Nat) : Option (Bool × Nat) :=
  if x > t.length then none
  else if t.levels = 0 then some (false, 0)
  else
    match t.root with
    | none => none
    | some root => accessRankFrom t.branch t.skipFactors root x 0

def access (t : T) (x : Nat) : Option Bool :=
  if x ≥ t.length then none else (accessRank t x).map (·.1)

def rank (t : T) (x : Nat) : Option Nat :=
  if x > t.length then none else (accessRank t x).map (·.2)

/-- `while x >= skip_factor { index += 1; x -= skip_factor }`: `(index, x)` -/
def subLoop (skip : Nat) : Nat → Nat → Nat → Nat × Nat
  | 0, index, x => (index, x)
  | f + 1, index, x => if x ≥ skip then subLoop skip f (index + 1) (x - skip) else (index, x)

/-- the `for skip_factor in skip_factors` loop of `select`, then the leaf -/
def selectFrom : List Nat → Node → Nat → Option Nat
  | [], nd, x =>
    match nd with
    | .leaf words => leafSelect words x
    | .node _ _ _ => none
  | skip :: skips, nd, x =>
    match nd with
    | .leaf _ => none
    | .node _ p0 ps =>
      let r := subLoop skip x 0 x
      match pointer p0 ps r.1 with
      | none => none
      | some ptr => selectFrom skips ptr r.2

def select (t : T) (x : Nat) : Option Nat :=
  if x = 0 then some 0
  else if t.levels = 0 then none
  else
    match t.root with
    | none => none
    | some root => selectFrom t.skipFactors root (x - 1)

/-- the trait's default `rank0`: `Some(x - self.rank(x)?)` -/
def rank0 (t : T) (x : Nat) : Option Nat := (rank t x).map (fun r => x - r)

/-- the trait's default `select0`: `partition_by(0, len, |mid| rank0(mid).unwrap() < x)` -/
def select0 (t : T) (x : Nat) : Option Nat :=
  let left := Blue.BitVec.partitionBy (fun mid => decide ((rank0 t mid).getD 0 < x)) (t.length + 1) 0 t.length
  if rank0 t left = some x then some left else none

/-! ### `construct` -/

def indicesFrom : Nat → List Bool → List Nat
  | _, [] => []
  | i, b :: rest => if b then i :: indicesFrom (i + 1) rest else indicesFrom (i + 1) rest

/-- the positions of the set bits, as `construct` collects them -/
def indicesOf (bits : List Bool) : List Nat := indicesFrom 0 bits

/-- the branch factor of `<sparse::BitVector as BitVector>::construct` -/
def constructBranch : Nat := 16

/-- `<sparse::BitVector as BitVector>::construct(bits)`: `from_indices(16, bits.len(), set positions)` -/
def construct (bits : List Bool) : Option T := build constructBranch bits.length (indicesOf bits)

end Blue.BvSparse
