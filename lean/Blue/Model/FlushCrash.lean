/-! The write and flush protocols of `KeyValueStore` as lists of file-system operations over a
    logical file system (what a file holds vs. what of it is durable), and `KeyValueStore::open`'s
    recovery as a function of a crash image.  A batch is its sequence number; an SST is named by its
    content (the setsum digest in the code; collisions are outside the model). -/
namespace Blue.FlushCrash

abbrev Batch := Nat  -- documentation only: fields are declared `Nat` so that `omega` sees them
abbrev Name := List Nat

structure File where
  data : List Nat
  durable : List Nat
deriving DecidableEq, Repr

structure Fs where
  tmp : List (Name × File)
  sst : List (Name × File)
  maniDurable : List Name
  maniPending : List Name
  logs : List (Nat × File)
deriving Repr

inductive Op where
  | logCreate (n : Nat)
  | logAppend (n : Nat) (b : Nat)
  | logSync (n : Nat)
  | ack (b : Nat)
  | tmpCreate (name : Name) (data : List Nat)
  | tmpSync (name : Name)
  | link (name : Name)
  | maniAppend (name : Name)
  | maniSync
  | tmpUnlink (name : Name)
  | logTrash (n : Nat)
deriving Repr, DecidableEq

def find : List (Name × File) → Name → Option File
  | [], _ => none
  | (k, f) :: t, nm => if k = nm then some f else find t nm

def step (fs : Fs) : Op → Fs
  | .logCreate n => { fs with logs := fs.logs ++ [(n, ⟨[], []⟩)] }
  | .logAppend n b => { fs with logs := fs.logs.map (fun l => if l.1 = n then (l.1, { l.2 with data := l.2.data ++ [b] }) else l) }
  | .logSync n => { fs with logs := fs.logs.map (fun l => if l.1 = n then (l.1, { l.2 with durable := l.2.data }) else l) }
  | .ack _ => fs
  | .tmpCreate name d => { fs with tmp := (name, ⟨d, []⟩) :: fs.tmp }
  | .tmpSync name => { fs with tmp := fs.tmp.map (fun e => if e.1 = name then (e.1, { e.2 with durable := e.2.data }) else e) }
  | .link name => match find fs.tmp name with
    | some f => { fs with sst := (name, f) :: fs.sst }
    | none => fs
  | .maniAppend name => { fs with maniPending := fs.maniPending ++ [name] }
  | .maniSync => { fs with maniDurable := fs.maniDurable ++ fs.maniPending, maniPending := [] }
  | .tmpUnlink name => { fs with tmp := fs.tmp.filter (fun e => e.1 ≠ name) }
  | .logTrash n => { fs with logs := fs.logs.filter (fun l => l.1 ≠ n) }

def run (fs : Fs) (ops : List Op) : Fs := ops.foldl step fs

/-- what the logs contribute on recovery: `recover_one` turns each log into an SST and adds it
    unless the manifest already names it -/
def logPart (mani : List Name) (ds : List (List Nat)) : List Nat :=
  (ds.filter (fun d => decide (d ∉ mani))).flatten

/-- `KeyValueStore::open` on a crash image: every SST the manifest names must be present and whole;
    the store then holds the manifest's SSTs plus the remaining logs -/
def recover (view : File → List Nat) (mani : List Name) (fs : Fs) : Option (List Nat) :=
  if ∀ nm ∈ mani, (find fs.sst nm).map view = some nm then
    some (mani.flatten ++ logPart mani (fs.logs.map (fun l => view l.2)))
  else none

/-- persistence model (b): only synced data and synced manifest edits survive -/
def recoverB (fs : Fs) : Option (List Nat) := recover (·.durable) fs.maniDurable fs
/-- persistence model (a): everything written survives -/
def recoverA (fs : Fs) : Option (List Nat) := recover (·.data) (fs.maniDurable ++ fs.maniPending) fs

/-- the sequential client: current log number, its content (= the memtable), next sequence number -/
structure Kv where
  cur : Nat
  content : List Nat
  next : Nat
deriving Repr

inductive Client where
  | put
  | flush
deriving Repr, DecidableEq

def block (kv : Kv) : Client → List Op
  | .put => [.logAppend kv.cur kv.next, .logSync kv.cur, .ack kv.next]
  | .flush =>
    if kv.content = [] then []
    else [.logCreate (kv.cur + 1), .tmpCreate kv.content kv.content, .tmpSync kv.content,
          .link kv.content, .maniAppend kv.content, .maniSync, .tmpUnlink kv.content, .logTrash kv.cur]

def after (kv : Kv) : Client → Kv
  | .put => { kv with content := kv.content ++ [kv.next], next := kv.next + 1 }
  | .flush => if kv.content = [] then kv else { kv with cur := kv.cur + 1, content := [] }

def opsOf : List Client → Kv → List Op
  | [], _ => []
  | c :: cs, kv => block kv c ++ opsOf cs (after kv c)

def acked (ops : List Op) : Nat := (ops.filter (fun o => match o with | .ack _ => true | _ => false)).length
def appended (ops : List Op) : Nat := (ops.filter (fun o => match o with | .logAppend _ _ => true | _ => false)).length

def fs0 : Fs := ⟨[], [], [], [], [(0, ⟨[], []⟩)]⟩
def kv0 : Kv := ⟨0, [], 0⟩

end Blue.FlushCrash
