import Blue.Model.Gc
/-! A DECLARATIVE reading of `sst::gc::GarbageCollectionPolicy`, independent of the collector loop.

`keeps p now h i`: "version number `i` (0 = newest) of a key whose history is `h` (newest first)
is retained under policy `p` at time `now`", by structural recursion on the POLICY.  No determiner,
no loop, no carried state occurs here.  What was read from the code (`/repo/sst/src/gc.rs`):

* `GarbageCollector::next` (l.194-232) offers EVERY value of a key to the determiner - a refusal
  is `continue 'iterating` (l.215), not a skip to the next key - and `AnyDeterminer` /
  `AllDeterminer` (l.590-620) ask every child on every call (`|=` / `&=`, no short circuit).  So
  whether a value is retained depends on (policy, now, the key's history, its position) only.
* `VersionsDeterminer::retain` (l.535-556) counts a value with tombstones directly above it as
  TWO versions and a value without as ONE; the value is retained iff the running count is `≤ N`.
  The tombstone and its value are kept or dropped TOGETHER: `versions = 2` on `V T V` keeps one
  version, although the doc comment says "retain at least this many versions" (`vcount`).
* `ExpiresDeterminer::retain` (l.571): `exists >= now.saturating_sub(micros)`.
* `return_key` (l.237-259): a tombstone is returned only as the OLDEST of the tombstones directly
  above a retained value (`tombKept`); every other tombstone is dropped. -/
namespace Blue.Gc
variable {K : Type}

/-- the tombstone directly above position `i` of the history, if there is one -/
def prevTomb (h : List (Ent K)) : Nat → Option Nat
  | 0 => none
  | m + 1 => match h[m]? with
    | some e => if e.tomb then some e.ts else none
    | none => none

/-- how many "versions" position `j` counts for `VersionsDeterminer`: a tombstone none, a value
    one, a value with a tombstone directly above it two -/
def weight (h : List (Ent K)) (j : Nat) : Nat :=
  match h[j]? with
  | some e => if e.tomb then 0 else if (prevTomb h j).isSome then 2 else 1
  | none => 0

/-- the versions counted strictly above position `n` -/
def vcountBelow (h : List (Ent K)) (n : Nat) : Nat := ((List.range n).map (weight h)).sum

/-- the versions counted down to and including position `i` -/
def vcount (h : List (Ent K)) (i : Nat) : Nat := vcountBelow h (i + 1)

def tsAt (h : List (Ent K)) (i : Nat) : Nat := match h[i]? with | some e => e.ts | none => 0

mutual
/-- the policy language, for a VALUE at position `i` -/
def keeps : Policy → Nat → List (Ent K) → Nat → Bool
  | .versions n, _, h, i => decide (vcount h i ≤ n)
  | .expires micros, now, h, i => decide (now - micros ≤ tsAt h i)
  | .any ps, now, h, i => keepsAny ps now h i
  | .all ps, now, h, i => keepsAll ps now h i
def keepsAny : List Policy → Nat → List (Ent K) → Nat → Bool
  | [], _, _, _ => false
  | p :: ps, now, h, i => keeps p now h i || keepsAny ps now h i
def keepsAll : List Policy → Nat → List (Ent K) → Nat → Bool
  | [], _, _, _ => true
  | p :: ps, now, h, i => keeps p now h i && keepsAll ps now h i
end

/-- the tombstone rule: position `i` is the oldest tombstone of a run that stands directly above
    a value (position `i + 1` is a value) and that value is retained -/
def tombKept (p : Policy) (now : Nat) (h : List (Ent K)) (i : Nat) : Bool :=
  match h[i + 1]? with
  | some e' => !e'.tomb && keeps p now h (i + 1)
  | none => false

/-- position `i` of the history is written to the output -/
def specKeeps (p : Policy) (now : Nat) (h : List (Ent K)) (i : Nat) : Bool :=
  match h[i]? with
  | some e => if e.tomb then tombKept p now h i else keeps p now h i
  | none => false

/-- what the declarative semantics keeps of one key's history, in order -/
def kept (p : Policy) (now : Nat) (h : List (Ent K)) : List (K × Nat) :=
  (h.zipIdx.filter (fun x => specKeeps p now h x.2)).map (fun x => (x.1.key, x.1.ts))

/-- entry-level form over a whole sorted run: the history of `e`'s key is the entries of the run
    with that key, `e`'s position the number of them with a larger timestamp -/
def specKeepsE [DecidableEq K] (p : Policy) (now : Nat) (run : List (Ent K)) (e : Ent K) : Bool :=
  specKeeps p now (run.filter (fun x => x.key = e.key))
    ((run.filter (fun x => x.key = e.key ∧ e.ts < x.ts)).length)

end Blue.Gc
