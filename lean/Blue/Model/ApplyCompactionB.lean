import Blue.Model.ApplyCompaction
import Blue.Model.Kvs
import Blue.Proofs.NextCompactionTree
/-! Boolean forms of the hypotheses of the successor-tree theorems
    (`Blue.NextCompaction.Chosen t c`, `Blue.NextCompaction.OutsOk t c outs` in
    `Blue.Proofs.ApplyCompaction`), conjunct by conjunct, for the driver: it evaluates them on every
    real compaction step.  Soundness (`chosenB_sound`, `outsOkB_sound`) is in
    `Blue.Proofs.ApplyCompactionB`. -/
namespace Blue.NextCompaction

/-- `Chosen.within` -/
def withinB (t : Tree) (c : Core) : Bool :=
  c.inputs.all fun id => (List.range (c.upper + 1)).any fun l =>
    decide (c.lower ≤ l) && (level t l).any fun f =>
      f.id == id && decide (c.first ≤ f.first) && decide (f.last ≤ c.last)

/-- `Chosen.covered` -/
def coveredB (t : Tree) (c : Core) : Bool :=
  (level t c.upper).all fun g => !(decide (g.first ≤ c.last) && decide (c.first ≤ g.last)) || c.inputs.contains g.id

/-- the conjuncts of `Chosen t c` in the order of the structure:
    levels, upper_lt, range, closed, within, covered -/
def chosenFlags (t : Tree) (c : Core) : List (String × Bool) :=
  [("levels", decide (c.lower < c.upper)), ("upper_lt", decide (c.upper < t.length)),
   ("range", decide (c.first ≤ c.last)), ("closed", Blue.Kvs.closedB (tagTree t c)),
   ("within", withinB t c), ("covered", coveredB t c)]

def chosenB (t : Tree) (c : Core) : Bool := (chosenFlags t c).all (·.2)

/-- `OutsOk.fresh` -/
def freshB (t : Tree) (c : Core) (outs : List File) : Bool :=
  outs.all fun o => t.all fun l => l.all fun f => !(f.id == o.id) || c.inputs.contains f.id

/-- the conjuncts of `OutsOk t c outs` in the order of the structure: wf, sorted, inside, ids, fresh -/
def outsOkFlags (t : Tree) (c : Core) (outs : List File) : List (String × Bool) :=
  [("wf", outs.all wfB), ("sorted", sortedB outs),
   ("inside", outs.all fun o => decide (c.first ≤ o.first) && decide (o.last ≤ c.last)),
   ("ids", nodupB (outs.map (·.id))), ("fresh", freshB t c outs)]

def outsOkB (t : Tree) (c : Core) (outs : List File) : Bool := (outsOkFlags t c outs).all (·.2)

end Blue.NextCompaction
