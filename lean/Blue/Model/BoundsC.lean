import Blue.Model.Cur
import Blue.Model.Bounds
/-! Bounds cursor (sst/src/bounds_cursor.rs), generic in the child cursor; `prev` as repaired (D-19). -/
namespace Blue.Cursor

structure BoundsC {E : Type} (C : Cur E) where
  c : C.σ
  st : BState

namespace BoundsC
variable {E : Type} (C : Cur E) (cfg : BoundsCfg E) (fuel : Nat)

def key (b : BoundsC C) : Option E := if b.st = .positioned then C.kv b.c else none

def checkStart (b : BoundsC C) : BoundsC C :=
  match key C b with
  | some e => if cfg.belowStart e then { b with st := .beforeStart } else b
  | none => b

def checkEnd (b : BoundsC C) : BoundsC C :=
  match key C b with
  | some e => if cfg.aboveEnd e then { b with st := .afterEnd } else b
  | none => b

def stepBackIfSome (c : C.σ) : C.σ := if (C.kv c).isSome then C.prev c else c

def seekToFirst (b : BoundsC C) : BoundsC C :=
  let c := if cfg.startUnbounded then C.first b.c else C.seek cfg.geStart b.c
  checkEnd C cfg ⟨stepBackIfSome C c, .beforeStart⟩

def skipEq : Nat → C.σ → C.σ
  | 0, c => c
  | f+1, c => match C.kv c with
    | some e => if cfg.eqEnd e then skipEq f (C.next c) else c
    | none => c

def seekToLast (b : BoundsC C) : BoundsC C :=
  let c := if cfg.endUnbounded then C.last b.c
           else if cfg.endIncluded then skipEq C cfg fuel (C.seek cfg.geEnd b.c)
           else C.seek cfg.geEnd b.c
  checkStart C cfg ⟨c, .afterEnd⟩

def nextLoop : Nat → BoundsC C → BoundsC C
  | 0, b => b
  | f+1, b =>
    if b.st = .afterEnd then b else
    let b1 := checkEnd C cfg (checkStart C cfg ⟨C.next b.c, .positioned⟩)
    if b1.st ≠ .beforeStart then b1 else nextLoop f b1

def next (b : BoundsC C) : BoundsC C := nextLoop C cfg fuel b

def prevLoop : Nat → BoundsC C → BoundsC C
  | 0, b => b
  | f+1, b =>
    if b.st = .beforeStart then b else
    let b1 := checkStart C cfg (checkEnd C cfg ⟨C.prev b.c, .positioned⟩)
    if b1.st ≠ .afterEnd then b1 else prevLoop f b1

def prev (b : BoundsC C) : BoundsC C := prevLoop C cfg fuel b

def seek (pred : E → Bool) (b : BoundsC C) : BoundsC C :=
  let b1 := checkStart C cfg (checkEnd C cfg ⟨C.seek pred b.c, .positioned⟩)
  if b1.st = .beforeStart then next C cfg fuel (seekToFirst C cfg b1) else b1

def kv (b : BoundsC C) : Option E := key C b

def new (c : C.σ) : BoundsC C := seekToFirst C cfg ⟨c, .beforeStart⟩

def cur : Cur E where
  σ := BoundsC C
  first := seekToFirst C cfg
  last := seekToLast C cfg fuel
  next := next C cfg fuel
  prev := prev C cfg fuel
  seek := seek C cfg fuel
  kv := kv C
  ok := fun b => C.ok b.c

end BoundsC
end Blue.Cursor
