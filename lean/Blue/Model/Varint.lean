import Blue.Model.Wire
/-! The two decoders of `buffertk::v64` as the code has them (property C15).

    `Blue.Wire.decVarint` is ONE list-recursive decoder.  `buffertk/src/varint.rs` has two:
    `unpack_slow` (an index loop with `|`, `&`, `<<`; at most `min(len, 10)` bytes) and the
    unrolled dispatch of `Unpackable::unpack` (`if buf[0] < 128 { unpack_size::<1> } else if
    buf[1] < 128 { unpack_size::<2> } …`), each arm calling `unpack_size::<SZ>`, which computes
    `(buf[SZ-1] as u64) << (7*(SZ-1))` and then `+=`s `(b - 0x80) << offset` for the first
    `SZ-1` bytes.  `unpack` picks the slow decoder when fewer than ten bytes remain.

    Both are modelled here operation for operation on `u64` as the harness profile compiles them
    (overflow checks ON): `<<` discards the bits shifted out of the 64-bit word and panics for a
    shift amount of 64 or more, `+` and `-` panic when they leave `u64`, indexing and slicing
    panic out of range.  `Res.panic` is an outcome of the model; `Blue/Proofs/Varint.lean` proves
    that it never happens, that both decoders compute `Blue.Wire.decVarint`, and that the
    ten-byte boundary of the dispatch is exactly what makes the indexing safe.  (With overflow
    checks off the same operations wrap instead of panicking; since no operation overflows, the
    results are the same.) -/
namespace Blue.Varint
open Blue.Wire

/-- what a decoder returns: `Ok((v64, &buf[k..]))`, `Err(varint_overflow(bytes))`, or a panic -/
inductive Res where
  | ok (v : Nat) (rest : List Nat)
  | err (bytes : Nat)
  | panic
deriving DecidableEq, Repr

/-! the literals of the two decoders (tied to the source in `Blue.ConstsTie`) -/
/-- `7`: bits per byte (`7 * (SZ - 1)`, `offset += 7`, `shl += 7`) -/
def STEP : Nat := 7
/-- `128` / `0x80`: the continuation bit (`& 128`, `- 0x80`, `< 128`) -/
def CONT : Nat := 128
/-- `127`: the payload bits (`& 127`) -/
def LOW : Nat := 127

/-- `(x as u64) << s`: bits shifted out are discarded; a shift of 64 or more panics (`none`) -/
def shl64 (x s : Nat) : Option Nat := if s < 64 then some ((x <<< s) % U64) else none
/-- `a + b` on `u64` with overflow checks -/
def add64 (a b : Nat) : Option Nat := if a + b < U64 then some (a + b) else none
/-- `a - b` on `u64` with overflow checks -/
def sub64 (a b : Nat) : Option Nat := if b ≤ a then some (a - b) else none

/-! ## `unpack_slow` -/

/-- the `while idx + 1 < bytes && buf[idx] & 128 != 0 { ret |= (buf[idx] as u64 & 127) << shl;
    idx += 1; shl += 7; }` loop; the state `(idx, shl, ret)` at exit, `none` = panic -/
def slowLoop (bytes : Nat) (buf : List Nat) (idx shl ret : Nat) : Option (Nat × Nat × Nat) :=
  if idx + 1 < bytes then
    match buf[idx]? with
    | none => none
    | some b =>
      if b &&& CONT ≠ 0 then
        match shl64 (b &&& LOW) shl with
        | none => none
        | some t => slowLoop bytes buf (idx + 1) (shl + STEP) (ret ||| t)
      else some (idx, shl, ret)
  else some (idx, shl, ret)
termination_by bytes - idx
decreasing_by omega

/-- what follows the loop: `if !buf.is_empty() && buf[idx] & 128 == 0 { ret |= …; idx += 1;
    Ok((ret, &buf[idx..])) } else { Err(varint_overflow(bytes)) }` -/
def slowTail (bytes : Nat) (buf : List Nat) (st : Nat × Nat × Nat) : Res :=
  if buf.isEmpty then .err bytes
  else
    match buf[st.1]? with
    | none => .panic
    | some b =>
      if b &&& CONT = 0 then
        match shl64 (b &&& LOW) st.2.1 with
        | none => .panic
        | some t => if st.1 + 1 ≤ buf.length then .ok (st.2.2 ||| t) (buf.drop (st.1 + 1)) else .panic
      else .err bytes

/-- `v64::unpack_slow`; `cap = (a, b)` are the two literals of
    `let bytes = if buf.len() < a { buf.len() } else { b }` -/
def unpackSlow (cap : Nat × Nat) (buf : List Nat) : Res :=
  let bytes := if buf.length < cap.1 then buf.length else cap.2
  match slowLoop bytes buf 0 0 0 with
  | none => .panic
  | some st => slowTail bytes buf st

/-! ## `unpack_size::<SZ>` and the unrolled dispatch -/

/-- `for b in buf.iter().take(SZ - 1) { result += (*b as u64 - 0x80) << offset; offset += 7; }` -/
def sizeLoop : List Nat → Nat → Nat → Option Nat
  | [], _, r => some r
  | b :: bs, off, r =>
    match sub64 b CONT with
    | none => none
    | some d =>
      match shl64 d off with
      | none => none
      | some t =>
        match add64 r t with
        | none => none
        | some r' => sizeLoop bs (off + STEP) r'

/-- `v64::unpack_size::<SZ>` -/
def unpackSize (sz : Nat) (buf : List Nat) : Res :=
  if sz = 0 then .panic                       -- `SZ - 1` on `usize`
  else
    match buf[sz - 1]? with
    | none => .panic
    | some last =>
      match shl64 last (STEP * (sz - 1)) with
      | none => .panic
      | some r0 =>
        match sizeLoop (buf.take (sz - 1)) 0 r0 with
        | none => .panic
        | some r => if sz ≤ buf.length then .ok r (buf.drop sz) else .panic   -- `&buf[SZ..]`

/-- `if buf[i₀] < 128 { unpack_size::<s₀>(buf) } else if buf[i₁] < 128 { … } else
    { Err(varint_overflow(buf.len())) }`: the arms are the (index, size) pairs of the source -/
def dispatch : List (Nat × Nat) → List Nat → Res
  | [], buf => .err buf.length
  | (i, sz) :: arms, buf =>
    match buf[i]? with
    | none => .panic
    | some b => if b < CONT then unpackSize sz buf else dispatch arms buf

/-- the literals that shape `Unpackable::unpack for v64` -/
structure Shape where
  /-- `if buf.len() < 10 { return Self::unpack_slow(buf); }` -/
  minLen : Nat
  /-- `if buf.len() < 10 { buf.len() } else { 10 }` in `unpack_slow` -/
  slowCap : Nat × Nat
  /-- `buf[i] < 128` ⇒ `unpack_size::<sz>` -/
  arms : List (Nat × Nat)

/-- `<v64 as Unpackable>::unpack` -/
def unpackWith (s : Shape) (buf : List Nat) : Res :=
  if buf.length < s.minLen then unpackSlow s.slowCap buf else dispatch s.arms buf

def arms10 : List (Nat × Nat) :=
  [(0, 1), (1, 2), (2, 3), (3, 4), (4, 5), (5, 6), (6, 7), (7, 8), (8, 9), (9, 10)]

/-- the code as it is -/
def shape : Shape := ⟨10, (10, 10), arms10⟩

def unpack (buf : List Nat) : Res := unpackWith shape buf

/-- `Blue.Wire.decVarint`'s answer as a `Res`, with the payload of the error -/
def ofDec (bytes : Nat) : Option (Nat × List Nat) → Res
  | none => .err bytes
  | some (v, rest) => .ok v rest

/-! ## `v64::pack` as the code has it

    `out[0] = (x & 0x7f) as u8; x >>= 7; let mut idx = 1; while x > 0 { out[idx - 1] |= 128;
    out[idx] = (x & 0x7f) as u8; idx += 1; x >>= 7; }` — each byte is first stored without the
    continuation bit, which is or-ed in when the next byte turns out to be needed. -/

/-- the `while x > 0` loop; `none` = index out of range -/
def packLoop (out : List Nat) (x idx : Nat) : Option (List Nat) :=
  if x > 0 then
    match out[idx - 1]? with
    | none => none
    | some p =>
      let out1 := out.set (idx - 1) (p ||| CONT)
      if idx < out1.length then packLoop (out1.set idx (x &&& LOW)) (x >>> STEP) (idx + 1)
      else none
  else some out
termination_by x
decreasing_by
  simp only [STEP, Nat.shiftRight_eq_div_pow]
  exact Nat.div_lt_self (by omega) (by decide)

/-- `v64::pack(&self, out)` for `self.x = x`: the buffer afterwards, `none` = index out of range -/
def pack (x : Nat) (out : List Nat) : Option (List Nat) :=
  if 0 < out.length then packLoop (out.set 0 (x &&& LOW)) (x >>> STEP) 1 else none

end Blue.Varint
