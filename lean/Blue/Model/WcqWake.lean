/-! The wake-up protocol of `WorkCoalescingQueue::do_work`: who parks on which condition and who
    notifies whom.  Data is abstracted to the three wait states; the point is the two mutexes —
    callers evaluate their wait condition and park atomically under the *queue's* `state` mutex
    (`naked_wait(state)`), while the leader stores outputs and unlinks itself holding only the wait
    list's own mutex. -/
namespace Blue.WcqWake

inductive WS where
  | inp
  | stolen
  | outp
deriving DecidableEq, Repr

structure Ent where
  st : WS
  linked : Bool
  parked : Bool
deriving DecidableEq, Repr

/-- where the leader is -/
inductive Lead where
  | none
  /-- batch taken, handing out outputs: leader index, batch size, delivered -/
  | delivering (i k j : Nat)
  /-- leader has unlinked itself, `doing_work` still set -/
  | unlinked
deriving DecidableEq, Repr

structure St where
  ents : List Ent
  doingWork : Bool
  lead : Lead
  /-- the leader's `notify_head` calls that have been decided but not yet made -/
  pendingNotifyHead : Nat
  /-- a caller that has decided to park and still holds the queue's mutex: between its reading of
      the wait state and `naked_wait` nothing that needs that mutex can happen, but the leader's
      `store` and `notify` (wait-list mutex only) can -/
  holder : Option Nat
deriving DecidableEq, Repr

def headIdx : List Ent → Nat
  | [] => 0
  | e :: es => if e.linked then 0 else headIdx es + 1

def upd (l : List Ent) (i : Nat) (f : Ent → Ent) : List Ent :=
  match l[i]? with
  | some e => l.set i (f e)
  | none => l

def isLeader : Lead → Nat → Bool
  | .delivering l _ _, i => l == i
  | _, _ => false

def stealN (l : List Ent) (i : Nat) : Nat → List Ent
  | 0 => l
  | k + 1 => stealN (upd l i (fun e => { e with st := .stolen })) (i + 1) k

inductive Ev where
  | link
  /-- caller `i`, awake, takes the queue's mutex and evaluates `doing_work || !is_head`: decides to
      park (keeping the mutex until `park`), or leaves with its output (unlink and `notify_head`,
      both still under the mutex), or — head with an input and nobody working — becomes the leader
      of a batch of `k` -/
  | check (i k : Nat)
  /-- the caller that decided to park does: `naked_wait` releases the mutex and waits -/
  | park
  /-- the leader's scheduled `notify_head` happens -/
  | notifyHead
  /-- the leader stores the next output and notifies that member (wait-list mutex only) -/
  | deliver
  /-- the leader unlinks itself (wait-list mutex only) -/
  | leaderUnlink
  /-- the leader clears `doing_work` under the queue's mutex and schedules its `notify_head` -/
  | leaderClear
  /-- a spurious wake-up of caller `i` -/
  | spurious (i : Nat)
deriving DecidableEq, Repr

/-- unlink `i` and signal whoever is the head afterwards -/
def leave (l : List Ent) (i : Nat) : List Ent :=
  let l' := upd l i (fun e => { e with linked := false })
  upd l' (headIdx l') (fun e => { e with parked := false })

def step (s : St) : Ev → St
  | .link => { s with ents := s.ents ++ [⟨.inp, true, false⟩] }
  | .check i k =>
    if s.holder ≠ none then s else
    match s.ents[i]? with
    | some ⟨st, true, false⟩ =>
      if isLeader s.lead i then s   -- the leader is past the loop
      else
        match st with
        | .outp => { s with ents := leave s.ents i }
        | .inp =>
          if s.doingWork = true ∨ headIdx s.ents ≠ i then { s with holder := some i }
          else if 1 ≤ k ∧ i + k ≤ s.ents.length then
            { s with doingWork := true, lead := .delivering i k 0, ents := stealN s.ents i k }
          else s
        | .stolen =>
          if s.doingWork = true ∨ headIdx s.ents ≠ i then { s with holder := some i }
          else s   -- "stolen at head of line": shown unreachable in `Blue.Wcq`
    | _ => s
  | .park =>
    match s.holder with
    | some i => { s with holder := none, ents := upd s.ents i (fun e => { e with parked := true }) }
    | none => s
  | .notifyHead =>
    if 0 < s.pendingNotifyHead then
      { s with pendingNotifyHead := s.pendingNotifyHead - 1,
               ents := upd s.ents (headIdx s.ents) (fun e => { e with parked := false }) }
    else s
  | .deliver =>
    match s.lead with
    | .delivering i k j =>
      if j < k then
        { s with lead := .delivering i k (j + 1),
                 ents := upd s.ents (i + j) (fun e => { e with st := .outp, parked := false }) }
      else s
    | _ => s
  | .leaderUnlink =>
    match s.lead with
    | .delivering i k j =>
      if j = k then { s with lead := .unlinked, ents := upd s.ents i (fun e => { e with linked := false }) }
      else s
    | _ => s
  | .leaderClear =>
    if s.holder ≠ none then s else
    match s.lead with
    | .unlinked => { s with lead := .none, doingWork := false, pendingNotifyHead := s.pendingNotifyHead + 1 }
    | _ => s
  | .spurious i => { s with ents := upd s.ents i (fun e => { e with parked := false }) }

def init : St := ⟨[], false, .none, 0, none⟩

/-- somebody still has to be served and nobody can move: every linked caller is parked, no leader
    is at work, no notification is on its way -/
def stuck (s : St) : Bool :=
  s.ents.any (·.linked) && s.ents.all (fun e => !e.linked || e.parked)
    && decide (s.lead = .none) && decide (s.pendingNotifyHead = 0) && decide (s.holder = none)

end Blue.WcqWake
