/-! CRC-32C (Castagnoli), the checksum `mani` puts in front of every manifest line
    (`crc32c::crc32c`, an external crate).  Reflected polynomial `0x82F63B78`, initial value and
    final xor `0xFFFFFFFF`; the 256-entry table is built once from the bitwise definition. -/
namespace Blue.Crc32c

def poly : UInt32 := 0x82F63B78

def bitStep (c : UInt32) : UInt32 := if c &&& 1 = 1 then (c >>> 1) ^^^ poly else c >>> 1

/-- table entry `i`: eight bit steps on `i` -/
def entry (i : UInt32) : UInt32 :=
  bitStep (bitStep (bitStep (bitStep (bitStep (bitStep (bitStep (bitStep i)))))))

def table : Array UInt32 := (Array.range 256).map (fun i => entry i.toUInt32)

/-- one byte, table driven -/
def update (c : UInt32) (b : Nat) : UInt32 :=
  (table.getD ((c ^^^ b.toUInt32) &&& 0xFF).toNat 0) ^^^ (c >>> 8)

def crc32c (bs : List Nat) : Nat := ((bs.foldl update 0xFFFFFFFF) ^^^ 0xFFFFFFFF).toNat

end Blue.Crc32c
