import Blue.Model.Cur
/-! Merging cursor (sst/src/merging_cursor.rs), generic in the child cursor. -/
namespace Blue.Cursor

structure MergingC {E : Type} (C : Cur E) where
  fwd : Bool
  cs : List C.σ

namespace MergingC
variable {E : Type} (C : Cur E) (lt : E → E → Bool)

def cmp (fwd : Bool) (a b : C.σ) : Bool := isLess lt fwd (C.kv a) (C.kv b)

def modifyHead (f : C.σ → C.σ) : List C.σ → List C.σ
  | [] => []
  | c :: cs => f c :: cs

def seekToFirst (m : MergingC C) : MergingC C :=
  let cs := m.cs.map (fun c => C.next (C.first c))
  let cs := Heap.heapify (cmp C lt true) cs
  { fwd := true, cs := modifyHead C C.first cs }

def seekToLast (m : MergingC C) : MergingC C :=
  let cs := m.cs.map (fun c => C.prev (C.last c))
  let cs := Heap.heapify (cmp C lt false) cs
  { fwd := false, cs := modifyHead C C.last cs }

def seek (p : E → Bool) (m : MergingC C) : MergingC C :=
  { fwd := true, cs := Heap.heapify (cmp C lt true) (m.cs.map (C.seek p)) }

def next (m : MergingC C) : MergingC C :=
  if m.fwd then
    let cs := modifyHead C C.next m.cs
    { m with cs := Heap.percolateDown (cmp C lt true) cs 0 cs.length }
  else
    { fwd := true, cs := Heap.heapify (cmp C lt true) (m.cs.map C.next) }

def prev (m : MergingC C) : MergingC C :=
  if m.fwd then
    { fwd := false, cs := Heap.heapify (cmp C lt false) (m.cs.map C.prev) }
  else
    let cs := modifyHead C C.prev m.cs
    { m with cs := Heap.percolateDown (cmp C lt false) cs 0 cs.length }

def kv (m : MergingC C) : Option E :=
  match m.cs with
  | [] => none
  | c :: _ => C.kv c

def new (cs : List C.σ) : MergingC C := seekToFirst C lt { fwd := true, cs := cs }

def cur : Cur E where
  σ := MergingC C
  first := seekToFirst C lt
  last := seekToLast C lt
  next := next C lt
  prev := prev C lt
  seek := seek C lt
  kv := kv C
  ok := fun m => m.cs.all C.ok

end MergingC
end Blue.Cursor
