/-! The `WaveletTree` trait's reference semantics (`scrunch::wavelet_tree::ReferenceWaveletTree`) on a
    plain list of symbols. -/
namespace Blue.WaveletRef

/-- `access(x)` -/
def access (text : List Nat) (x : Nat) : Option Nat := text[x]?

/-- `rank_q(q, x)`: the number of `q` among the first `x` symbols, defined for `x ≤ len` -/
def rankQ (text : List Nat) (q x : Nat) : Option Nat :=
  if x ≤ text.length then some ((text.take x).count q) else none

/-- the scan of `ReferenceWaveletTree::select_q`: the first index at which `x` symbols `q` have been
    seen (`i` symbols consumed so far, `rank` of them equal to `q`) -/
def selectScan (q x : Nat) : List Nat → Nat → Nat → Option Nat
  | [], i, rank => if rank = x then some i else none
  | t :: rest, i, rank => if rank = x then some i else selectScan q x rest (i + 1) (if t = q then rank + 1 else rank)

/-- `select_q(q, x)`: `0` for `x = 0`, otherwise one past the position of the `x`-th `q`, `None` if
    there are fewer -/
def selectQ (text : List Nat) (q x : Nat) : Option Nat := selectScan q x text 0 0

end Blue.WaveletRef
