/-! The stall / wake-up protocol between ingest (`apply_manifest_ingest`: wait on `stall` while
    `should_stall_ingest`; after installing, `compact.notify_all()`) and the compaction threads
    (`compaction_thread`: wait on `compact` while `next_compaction()` is `None`; after applying,
    `stall.notify_all()` — and *not* `compact.notify_all()`), all under the `compaction` mutex.

    The protocol reads the tree through two functions only.  `should_stall_ingest` is a function
    of level 0 (file count and bytes against the two write-stall thresholds), which the state
    carries.  `next_compaction().is_some()` depends on the whole tree and on the compactions in
    flight: trivial moves and compactions below level 0 are offered on an empty level 0, two
    compactions that do not overlap run side by side, and a compaction that conflicts with one in
    flight is withheld.  The model therefore takes the selector's answer from the event (it is an
    observation of the run) and states what the protocol needs of it as a predicate on runs
    (`selOK`, the model's `Sel`): the selector does not answer "nothing" while ingest is stalled
    and nothing is in flight.  `quiet` is a ghost: the selector has answered "nothing" on the
    present tree with nothing in flight. -/
namespace Blue.Stall

inductive TState where
  | running
  | inflight
  | waiting
deriving DecidableEq, Repr

structure St where
  /-- `l0_write_stall_threshold_files` -/
  stallAt : Nat
  /-- `l0_write_stall_threshold_bytes` -/
  stallBytes : Nat
  /-- files in level 0 -/
  l0 : Nat
  /-- bytes in level 0 -/
  l0b : Nat
  ingesters : List TState
  compactors : List TState
  quiet : Bool := false
  /-- `false` models the mutant that drops `compact.notify_all()` from ingest -/
  ingestNotifies : Bool := true
  /-- entries on the `ongoing` list that belong to no compaction in flight -/
  stale : Nat := 0
  /-- `false` models the mutant whose error path does not call `release_compaction`: the failed
      compaction's entry stays on the `ongoing` list -/
  abortReleases : Bool := true
deriving DecidableEq, Repr

def wakeAll (l : List TState) : List TState := l.map (fun t => if t = .waiting then .running else t)

def setAt (l : List TState) (i : Nat) (t : TState) : List TState := l.set i t

/-- `should_stall_ingest()` -/
def stalled (s : St) : Bool := decide (s.l0 ≥ s.stallAt) || decide (s.l0b ≥ s.stallBytes)

/-- the length of the `ongoing` list: the compactions in flight and the entries left behind -/
def ongoing (s : St) : Nat := (s.compactors.filter (· == .inflight)).length + s.stale

/-- `ongoing` is empty: no compaction is in flight and no entry was left behind -/
def idle (s : St) : Bool := s.compactors.all (· != .inflight) && s.stale == 0

inductive Ev where
  /-- ingester `i` runs its critical section with a file of `b` bytes -/
  | ingest (i b : Nat)
  /-- compactor `i` runs the selection critical section; `a`: `next_compaction()` was `Some` -/
  | select (i : Nat) (a : Bool)
  /-- compactor `i` applies its compaction, which takes `c` files and `b` bytes out of level 0
      (`c = 0`: a compaction or move below level 0) -/
  | finish (i c b : Nat)
  /-- the compaction of compactor `i` fails (`perform_compaction` returns an error): under the
      mutex the thread releases the compaction (`release_compaction`) and returns; a fresh
      compaction thread takes its place (the property's premise: a compaction thread is running).
      Level 0 is unchanged and nobody is notified. -/
  | abort (i : Nat)
  /-- a spurious wake-up of ingester / compactor `i` (`Condvar::wait` may return unprompted): the
      thread goes back to its check -/
  | spurI (i : Nat)
  | spurC (i : Nat)
deriving DecidableEq, Repr

def step (s : St) : Ev → St
  | .ingest i b =>
    match s.ingesters[i]? with
    | some .running =>
      if stalled s then { s with ingesters := setAt s.ingesters i .waiting }
      else { s with l0 := s.l0 + 1, l0b := s.l0b + b, quiet := false,
                    compactors := if s.ingestNotifies then wakeAll s.compactors else s.compactors }
    | _ => s
  | .select i a =>
    match s.compactors[i]? with
    | some .running =>
      if a then { s with compactors := setAt s.compactors i .inflight }
      else { s with compactors := setAt s.compactors i .waiting, quiet := s.quiet || idle s }
    | _ => s
  | .finish i c b =>
    match s.compactors[i]? with
    | some .inflight =>
      { s with l0 := s.l0 - min c s.l0, l0b := s.l0b - min b s.l0b, quiet := false,
               ingesters := wakeAll s.ingesters, compactors := setAt s.compactors i .running }
    | _ => s
  | .abort i =>
    match s.compactors[i]? with
    | some .inflight =>
      { s with compactors := setAt s.compactors i .running,
               stale := if s.abortReleases then s.stale else s.stale + 1 }
    | _ => s
  | .spurI i =>
    match s.ingesters[i]? with
    | some .waiting => { s with ingesters := setAt s.ingesters i .running }
    | _ => s
  | .spurC i =>
    match s.compactors[i]? with
    | some .waiting => { s with compactors := setAt s.compactors i .running }
    | _ => s

/-- the model's `Sel`, as a condition on one event: the selector does not answer "nothing" while
    ingest is stalled and nothing is in flight -/
def selOK (s : St) : Ev → Bool
  | .select _ false => !(stalled s && idle s)
  | _ => true

/-- `Sel` along a run -/
def runSel : St → List Ev → Bool
  | _, [] => true
  | s, ev :: t => selOK s ev && runSel (step s ev) t

/-- everybody is asleep and somebody wants to write -/
def deadlocked (s : St) : Bool :=
  s.ingesters.all (· == .waiting) && s.compactors.all (· == .waiting) && !s.ingesters.isEmpty

/-- the invariant of `Blue.Stall.Inv`, executable (the trace validator evaluates it after every
    event of a recorded run) -/
def invB (s : St) : Bool :=
  s.ingestNotifies && s.abortReleases && s.stale == 0 && !s.compactors.isEmpty
    && (s.ingesters.all (· != .waiting) || stalled s)
    && (s.compactors.any (· != .waiting) || s.quiet)
    && (!s.quiet || !stalled s)

end Blue.Stall
