/-! The stall / wake-up protocol between ingest (`apply_manifest_ingest`: wait on `stall` while
    level 0 is over its threshold; after installing, `compact.notify_all()`) and the compaction
    threads (`compaction_thread`: wait on `compact` while `next_compaction()` is `None`; after
    applying, `stall.notify_all()` — and *not* `compact.notify_all()`), all under the `compaction`
    mutex.  Level 0 is abstracted to its file count; `stallAt` is the write-stall threshold,
    `workAt` the count from which the selector returns a compaction; a compaction in flight
    conflicts with any other (the overlap rule of `may_choose_compaction` on level 0). -/
namespace Blue.Stall

inductive TState where
  | running
  | inflight
  | waiting
deriving DecidableEq, Repr

structure St where
  stallAt : Nat
  workAt : Nat
  l0 : Nat
  ingesters : List TState
  compactors : List TState
  /-- `false` models the mutant that drops `compact.notify_all()` from ingest -/
  ingestNotifies : Bool := true
deriving DecidableEq, Repr

def wakeAll (l : List TState) : List TState := l.map (fun t => if t = .waiting then .running else t)

def setAt (l : List TState) (i : Nat) (t : TState) : List TState := l.set i t

/-- `next_compaction()` returns something -/
def work (s : St) : Bool :=
  decide (s.l0 ≥ s.workAt) && decide (0 < s.l0) && s.compactors.all (· != .inflight)

inductive Ev where
  /-- ingester `i` runs its critical section -/
  | ingest (i : Nat)
  /-- compactor `i` runs the selection critical section -/
  | select (i : Nat)
  /-- compactor `i` applies its compaction, which removes `c ≥ 1` files from level 0 -/
  | finish (i c : Nat)
deriving DecidableEq, Repr

def step (s : St) : Ev → St
  | .ingest i =>
    match s.ingesters[i]? with
    | some .running =>
      if s.l0 ≥ s.stallAt then { s with ingesters := setAt s.ingesters i .waiting }
      else { s with l0 := s.l0 + 1,
                    compactors := if s.ingestNotifies then wakeAll s.compactors else s.compactors }
    | _ => s
  | .select i =>
    match s.compactors[i]? with
    | some .running =>
      if work s then { s with compactors := setAt s.compactors i .inflight }
      else { s with compactors := setAt s.compactors i .waiting }
    | _ => s
  | .finish i c =>
    match s.compactors[i]? with
    | some .inflight =>
      { s with l0 := s.l0 - (min (max c 1) s.l0), ingesters := wakeAll s.ingesters,
               compactors := setAt s.compactors i .running }
    | _ => s

/-- everybody is asleep and somebody wants to write -/
def deadlocked (s : St) : Bool :=
  s.ingesters.all (· == .waiting) && s.compactors.all (· == .waiting) && !s.ingesters.isEmpty

end Blue.Stall
