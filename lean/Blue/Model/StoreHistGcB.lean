import Blue.Model.StoreHist
/-! # Boolean forms of the two output obligations of a garbage-collecting compaction

`newestKeptB pay ins outs` is the executable form of `Blue.StoreHistGc.NewestKept` (for every key of
the inputs the newest input version is an output — or it is a tombstone and what the outputs hold of
that key starts with a tombstone, possibly nothing); `subB ins outs` of "every output version is an
input version" (`hsub` of `GcCompactionOk`).  The C01 driver evaluates both on every performed
compaction into the last level.  Soundness: `Blue.Proofs.StoreHistGcB`. -/
namespace Blue.StoreHistGcB
open Blue.Spec Blue.StoreHist

/-- no version of `N`'s key in `E` is newer than `N` -/
def newestB (E : List (Ver Nat)) (N : Ver Nat) : Bool :=
  E.all fun e => !(e.1 == N.1) || decide (e.2 ≤ N.2)

def newestKeptB (pay : Nat → Nat → Option Payload) (ins outs : List (Ver Nat)) : Bool :=
  ins.all fun N => !(newestB ins N) || (outs.contains N ||
    (decide (pay N.1 N.2 = some none) &&
      outs.all fun o => !(o.1 == N.1) || (!(newestB outs o) || decide (pay o.1 o.2 = some none))))

def subB (ins outs : List (Ver Nat)) : Bool := outs.all fun o => ins.contains o

end Blue.StoreHistGcB
