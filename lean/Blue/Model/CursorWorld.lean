import Blue.Model.FileRefs
import Blue.Model.SkipOwn
import Blue.Model.Snap
/-! ONE transition system for a store with open scan cursors (`KeyValueStore::range_scan`,
    lsmtk/src/kvs/mod.rs:584-620): the PRODUCT of the three models property C07 has — `Blue.FileRefs`
    (versions, `Arc` counts, `ReferenceCounter<Setsum>`, `sst/`, `trash/`), one `Blue.SkipOwn` state per
    memtable ever made (list handle = the `MemTable`'s `SkipList`, iterators, released nodes), one
    `Blue.Snap.Held` per cursor (what it captured, where it stands) — plus the set of cursors.

    A cursor holds: one skiplist iterator per captured memtable (`MemTable::range_scan` makes
    `self.skiplist.iter()`, memtable.rs:75; since the D-4 fix the iterator shares `Arc<Head>`, skipfree
    lib.rs:391-394 — the local `Arc<MemTable>`s of `range_scan` die when it returns, the ITERATORS
    are what the cursor keeps), the `VersionRef` (`SnapshotCursor::_version`, tree/mod.rs:1104-1108),
    the read timestamp (`state.visible_seq_no`, mod.rs:599) and its position.

    Every event is defined BY the steps of the component models: `FileRefs.step` for
    install / snapshot / release, `SkipOwn.step false` for insert / iter / dropList / use / dropIter,
    `Snap.step` for what a cursor shows.  `none` = the event is not enabled.

    Simplifications (stated, not hidden): writes are atomic (number assigned, entry inserted and
    visible in one event; writers in flight are the C06 model); `flush` installs the version and
    clears `imm` in one event (the real window between `_ingest` and `state.imm = None`,
    mod.rs:313-322, is not an event here); the store's handle on a memtable stands for every
    `Arc<MemTable>` that is not a cursor's. -/
namespace Blue.CursorWorld
open Blue.Spec Blue.Cursor

/-- a held `SnapshotCursor` -/
structure Cur (K : Type) where
  /-- index of the memtable that was the MUTABLE one at open time -/
  memT : Nat
  /-- captured memtable handles: (memtable index, iterator index in that skiplist) -/
  hs : List (Nat × Nat)
  /-- index of the captured version (the `VersionRef`) -/
  ver : Nat
  sb : Bound K
  eb : Bound K
  /-- read timestamp, entries of the captured components as of now, position -/
  snap : Snap.Held K
  /-- not yet dropped -/
  live : Bool
  /-- ghost: what was captured at open time -/
  snap0 : Snap.Held K
  /-- ghost: every token fed to the cursor since it was opened -/
  toks : List (Snap.Tok K)
  /-- ghost: what its calls returned -/
  outs : List (Option (Ver K))

structure St (F K : Type) where
  files : FileRefs.St F
  /-- names the verifier pass has unlinked from `trash/` -/
  unlinked : List F
  /-- every memtable ever made, the mutable one last -/
  tables : List SkipOwn.St
  /-- `state.imm`: index of the immutable memtable while the store holds it -/
  imm : Option Nat
  /-- last sequence number assigned = `visible_seq_no` (writes are atomic here) -/
  seq : Nat
  /-- entries of each memtable -/
  tabData : List (List (Ver K))
  /-- entries of each file -/
  fileData : List (F × List (Ver K))
  cursors : List (Cur K)

inductive Ev (F K : Type) where
  | write (k : K)
  | rollover
  /-- the flush of the immutable memtable into file `f` -/
  | flush (f : F)
  /-- a compaction / trivial move / GC installs the version with these files -/
  | compactInstall (files : List F) (data : List (F × List (Ver K)))
  /-- the verifier's clean-up unlinks everything in `trash/` -/
  | verifierPass
  | openCursor (sb eb : Bound K)
  | stepCursor (i : Nat) (o : Op (Ver K))
  | dropCursor (i : Nat)

variable {F K : Type} [DecidableEq F] [DecidableEq K]

/-- one `SkipOwn` event on memtable `t` -/
def onTable (ts : List SkipOwn.St) (t : Nat) (op : Blue.SkipLife.Op) : Option (List SkipOwn.St) :=
  match ts[t]? with
  | some tb => (SkipOwn.step false tb op).map (fun tb' => ts.set t tb')
  | none => none

/-- the same event through each handle of a list -/
def onHandles (mk : Nat → Blue.SkipLife.Op) : List SkipOwn.St → List (Nat × Nat) → Option (List SkipOwn.St)
  | ts, [] => some ts
  | ts, (t, j) :: hs => (onTable ts t (mk j)).bind fun ts' => onHandles mk ts' hs

/-- `skiplist.iter()` on each of the memtables `tabs`; the new handles -/
def openOn : List SkipOwn.St → List Nat → Option (List SkipOwn.St × List (Nat × Nat))
  | ts, [] => some (ts, [])
  | ts, t :: rest =>
    match ts[t]? with
    | none => none
    | some tb =>
      (onTable ts t .iter).bind fun ts' =>
        (openOn ts' rest).map fun r => (r.1, (t, tb.iters.length) :: r.2)

def curFiles (fs : FileRefs.St F) : List F :=
  match fs.versions[fs.versions.length - 1]? with
  | some v => v.files
  | none => []

def filesOf (fs : FileRefs.St F) (i : Nat) : List F :=
  match fs.versions[i]? with
  | some v => v.files
  | none => []

def dataOf (fd : List (F × List (Ver K))) (f : F) : List (Ver K) :=
  match fd.find? (fun p => p.1 = f) with
  | some p => p.2
  | none => []

/-- what `range_scan` captures under the state lock -/
def capture (s : St F K) : Snap.Held K :=
  ⟨s.seq, s.tabData.getD (s.tables.length - 1) [],
    (match s.imm with | some t => s.tabData.getD t [] | none => []) ++ (curFiles s.files).flatMap (dataOf s.fileData), 0⟩

/-- one token of `Blue.Snap` reaches the cursor -/
def feed (klt : K → K → Bool) (tomb : Ver K → Bool) (c : Cur K) (tok : Snap.Tok K) : Cur K :=
  let r := Snap.step klt tomb c.sb c.eb c.snap tok
  { c with snap := r.1, toks := c.toks ++ [tok], outs := c.outs ++ r.2.toList }

def step (klt : K → K → Bool) (tomb : Ver K → Bool) (s : St F K) : Ev F K → Option (St F K)
  | .write k =>
    let m := s.tables.length - 1
    let e : Ver K := (k, s.seq + 1)
    (onTable s.tables m .insert).map fun ts =>
      { s with tables := ts, seq := s.seq + 1,
               tabData := s.tabData.set m (s.tabData.getD m [] ++ [e]),
               cursors := s.cursors.map fun c => feed klt tomb c (if c.memT = m then .write [e] else .other) }
  | .rollover =>
    match s.imm with
    | some _ => none
    | none =>
      some { s with tables := s.tables ++ [{}], imm := some (s.tables.length - 1), tabData := s.tabData ++ [[]] }
  | .flush f =>
    match s.imm with
    | none => none
    | some t =>
      (onTable s.tables t .dropList).map fun ts =>
        { s with tables := ts, imm := none,
                 files := FileRefs.step s.files (.install (curFiles s.files ++ [f])),
                 fileData := s.fileData ++ [(f, s.tabData.getD t [])] }
  | .compactInstall files data =>
    some { s with files := FileRefs.step s.files (.install files), fileData := s.fileData ++ data }
  | .verifierPass =>
    some { s with unlinked := s.unlinked ++ s.files.trash, files := { s.files with trash := [] } }
  | .openCursor sb eb =>
    let m := s.tables.length - 1
    (openOn s.tables (m :: s.imm.toList)).map fun r =>
      let h := capture s
      { s with tables := r.1, files := FileRefs.step s.files .snapshot,
               cursors := s.cursors ++ [⟨m, r.2, s.files.versions.length - 1, sb, eb, h, true, h, [], []⟩] }
  | .stepCursor i o =>
    match s.cursors[i]? with
    | none => none
    | some c =>
      if c.live then
        (onHandles .use s.tables c.hs).map fun ts =>
          { s with tables := ts, cursors := s.cursors.set i (feed klt tomb c (.op o)) }
      else none
  | .dropCursor i =>
    match s.cursors[i]? with
    | none => none
    | some c =>
      if c.live then
        (onHandles .dropIter s.tables c.hs).map fun ts =>
          { s with tables := ts, files := FileRefs.step s.files (.release c.ver),
                   cursors := s.cursors.set i { c with live := false } }
      else none

def run (klt : K → K → Bool) (tomb : Ver K → Bool) : St F K → List (Ev F K) → Option (St F K)
  | s, [] => some s
  | s, e :: es =>
    match step klt tomb s e with
    | some s' => run klt tomb s' es
    | none => none

/-- a store just opened on the files `files` (with their entries `data`), one empty memtable -/
def init (files : List F) (data : List (F × List (Ver K))) : St F K :=
  { files := { versions := [⟨files, 1, true⟩], refs := fun f => files.count f, sst := files, trash := [] },
    unlinked := [], tables := [{}], imm := none, seq := 0, tabData := [[]], fileData := data, cursors := [] }

end Blue.CursorWorld
