import Blue.Model.Log
import Blue.Model.LogHeader
import Blue.Model.EntryCodec
import Blue.Model.BlockSeal
import Blue.Model.Mani
import Blue.Model.Utf8
/-! Damage to a file's bytes, and the two readers that C09 needs beyond the SST
    (`Blue.SstOpen`):

    * the log as `KeyValueStore::open` replays it (`log_to_builder`: drain the `LogIterator`,
      sort by key ascending / timestamp descending, feed an `SstBuilder`; `log_to_setsum`);
    * the manifest as `ManifestIterator` hands it out item by item — edits *and* errors, with the
      errors that poison it (as found the non-ASCII check did not: `iterateAsFound`) —
      and `Manifest::open`'s `read_mani` on top of it.

    `ManifestIterator` is modelled here once more, next to `Blue.Mani.readEdits`, because two
    details matter on hostile bytes that `readEdits` abstracts: `BufRead::lines` strips a carriage
    return only from a line that ended in a newline, and it fails on a line that is not UTF-8. -/
namespace Blue.Damage

/-! ## damage -/
inductive Dmg where
  | flip (off bit : Nat)
  | over (off val : Nat)
  | trunc (len : Nat)
  | app (suffix : List Nat)
deriving DecidableEq, Repr

def flipBit (b bit : Nat) : Nat := if b / 2 ^ bit % 2 = 1 then b - 2 ^ bit else b + 2 ^ bit

/-- one step; an offset past the end (after an earlier truncation) changes nothing -/
def apply (bs : List Nat) : Dmg → List Nat
  | .flip off bit => match bs[off]? with
    | some b => bs.set off (flipBit b bit)
    | none => bs
  | .over off v => if off < bs.length then bs.set off v else bs
  | .trunc n => bs.take n
  | .app s => bs ++ s

def applyAll (bs : List Nat) (ds : List Dmg) : List Nat := ds.foldl apply bs

/-! ## the log, replayed -/
open Blue.Log Blue.EntryCodec Blue.Block

/-- `next_from_buffer` until the batch buffer is used up: the entries, and whether an error
    (`unpack`, `shared != 0`, an empty buffer) stopped it -/
def batchEntries : Nat → List Nat → List KV × Bool
  | 0, _ => ([], true)
  | f + 1, bs =>
    match decEntry bs with
    | none => ([], true)
    | some (.put p, rest) =>
      if p.shared ≠ 0 then ([], true)
      else if rest.isEmpty then ([⟨p.keyFrag, p.timestamp, some p.value⟩], false)
      else let r := batchEntries f rest; (⟨p.keyFrag, p.timestamp, some p.value⟩ :: r.1, r.2)
    | some (.del d, rest) =>
      if d.shared ≠ 0 then ([], true)
      else if rest.isEmpty then ([⟨d.keyFrag, d.timestamp, none⟩], false)
      else let r := batchEntries f rest; (⟨d.keyFrag, d.timestamp, none⟩ :: r.1, r.2)

/-- the entries of the batches the frame reader delivered, up to the first error -/
def deliver : List (List Nat) → Bool → List KV × Bool
  | [], e => ([], e)
  | b :: bs, e =>
    let r := batchEntries (b.length + 1) b
    if r.2 then (r.1, true) else let t := deliver bs e; (r.1 ++ t.1, t.2)

/-- `LogIterator` drained: entries delivered, and whether it ended with an error -/
def drain (P : Params) (file : List Nat) : List KV × Bool :=
  let r := readSome P file (file.length + 2) 0
  deliver r.1 r.2

/-- `sort_by(KeyRef::cmp)`: stable, key ascending, timestamp descending -/
def sortReplay (es : List KV) : List KV := es.mergeSort (fun a b => !KV.lt b a)

/-- do the sorted entries pass `SstBuilder::put`/`del` (strictly increasing, sizes within limits)? -/
def builderAccepts : List KV → List Nat → Nat → Bool
  | [], _, _ => true
  | e :: es, lk, lt => (putCheck 0 lk lt e).isNone && builderAccepts es e.key e.ts

inductive Replay where
  /-- the reader failed: `Err` from `log_to_builder` (after the repair of D-3; a panic before it) -/
  | readerError
  /-- the log held nothing: `Ok(None)` -/
  | empty
  /-- the builder refused an entry (`sort-order`, …) -/
  | builderError
  /-- the table that was sealed -/
  | sealed (es : List KV)
deriving Repr

/-- does `log_to_builder` / `log_to_setsum` answer a reader error with `Err` (`?`) rather than a
    panic (`.unwrap()`)?  Tied to the source by `Blue.ConstsTie`. -/
def replayPropagatesErrors : Bool := true

/-- `log_to_builder` into an `SstBuilder`, given what the reader delivers -/
def replayOf (d : List KV × Bool) : Replay :=
  if d.2 then .readerError
  else if d.1.isEmpty then .empty
  else
    let s := sortReplay d.1
    if builderAccepts s [] U64MAX then .sealed s else .builderError

def logToBuilder (P : Params) (file : List Nat) : Replay := replayOf (drain P file)

/-- `log_to_setsum`: `true` = `Ok` -/
def logToSetsumOk (P : Params) (file : List Nat) : Bool := !(drain P file).2

/-! ## the manifest, item by item -/
open Blue.Mani

inductive Item where
  | edit (e : Edit)
  /-- `corruption` (bad CRC digits, CRC mismatch, short line, …): poisons the iterator -/
  | corrupt
  /-- `corruption` from the non-ASCII check: poisons, as repaired by
      /repo commit ef4f524 (as found it did not: `iterateAsFound`) -/
  | notAscii
  /-- `BufRead::lines` failed (the line is not UTF-8): `io-error`, poisons -/
  | ioError
  /-- `Edit::add/rm/info` refused the payload (it ends in a carriage return): poisons -/
  | disallowed
deriving DecidableEq, Repr

def Item.isErr : Item → Bool
  | .edit _ => false
  | _ => true

/-- one line as `BufRead::lines` returns it: the newline is dropped, and a carriage return before
    *that newline* with it; a last line without a newline keeps its carriage return -/
def lineOf (raw : List Nat) (terminated : Bool) : List Nat := if terminated then stripCr raw else raw

variable (crc : List Nat → Nat)

/-- `ManifestIterator`: every item a caller sees until `None`.  Every error poisons the iterator,
    the non-ASCII check included (as repaired by /repo commit ef4f524). -/
def iterate : Nat → List Nat → Edit → List Item
  | 0, _, _ => []
  | _ + 1, [], _ => []
  | f + 1, bs, cur =>
    let (raw, rest) := splitLine bs
    let rest' := rest.getD []
    -- the bytes `read_line` appended: the line and its newline
    if !Blue.Utf8.valid raw then [.ioError]
    else
      let line := lineOf raw rest.isSome
      if line.any (fun b => b ≥ 128) then [.notAscii]
      else
        match parseLine crc line with
        | .corrupt => [.corrupt]
        | .sep => .edit cur :: iterate f rest' Edit.empty
        | .rm s => if s.getLast? = some 13 then [.disallowed] else iterate f rest' { cur with rm := insertStr s cur.rm }
        | .add s => if s.getLast? = some 13 then [.disallowed] else iterate f rest' { cur with add := insertStr s cur.add }
        | .info k s => if s.getLast? = some 13 then [.disallowed] else iterate f rest' { cur with info := setInfo k s cur.info }

/-- the reader as found (finding: the non-ASCII error did not poison): after that error the
    iterator went on, with an empty current edit -/
def iterateAsFound : Nat → List Nat → Edit → List Item
  | 0, _, _ => []
  | _ + 1, [], _ => []
  | f + 1, bs, cur =>
    let (raw, rest) := splitLine bs
    let rest' := rest.getD []
    -- the bytes `read_line` appended: the line and its newline
    if !Blue.Utf8.valid raw then [.ioError]
    else
      let line := lineOf raw rest.isSome
      if line.any (fun b => b ≥ 128) then .notAscii :: iterateAsFound f rest' Edit.empty
      else
        match parseLine crc line with
        | .corrupt => [.corrupt]
        | .sep => .edit cur :: iterateAsFound f rest' Edit.empty
        | .rm s => if s.getLast? = some 13 then [.disallowed] else iterateAsFound f rest' { cur with rm := insertStr s cur.rm }
        | .add s => if s.getLast? = some 13 then [.disallowed] else iterateAsFound f rest' { cur with add := insertStr s cur.add }
        | .info k s => if s.getLast? = some 13 then [.disallowed] else iterateAsFound f rest' { cur with info := setInfo k s cur.info }

def items (bytes : List Nat) : List Item := iterate crc (bytes.length + 2) bytes Edit.empty

/-- the reader as found (finding: the non-ASCII error did not poison), drained -/
def itemsAsFound (bytes : List Nat) : List Item := iterateAsFound crc (bytes.length + 2) bytes Edit.empty

def editsBeforeError : List Item → List Edit × Option Item
  | [] => ([], none)
  | .edit e :: t => let r := editsBeforeError t; (e :: r.1, r.2)
  | i :: _ => ([], some i)

/-- `Manifest::open`'s `read_mani`: the first error ends it; otherwise the edits applied in order -/
def openState (bytes : List Nat) : Except Item State :=
  let r := editsBeforeError (items crc bytes)
  match r.2 with
  | some i => .error i
  | none => .ok (r.1.foldl applyEdit ⟨[], []⟩)

end Blue.Damage
