/-! The manifest's two protocols as system-call lists: `apply` (append the edit, `sync_data`, return)
    and `rollover` (hard-link MANIFEST to a backup, remove a left-over temporary, write the
    rolled-up state to the temporary, sync it, rename it over MANIFEST), with crashes between
    calls.  States and edits are abstract; the text format is `Blue.Mani`.

    `linked` records that MANIFEST and the newest backup are the same file (between the `link` and
    the `rename` of a rollover); the repaired `Manifest::open` (D-13) finishes such an interrupted
    rollover instead of starting another one. -/
namespace Blue.ManiCrash

structure Algebra (St E : Type) where
  empty : St
  apply : St → E → St
  rollup : St → E

structure FileSt (E : Type) where
  durable : List E
  pending : List E

structure Fs (E : Type) where
  mani : FileSt E
  tmp : Option (FileSt E)
  backups : List (List E)
  linked : Bool := false

inductive Op (E : Type) where
  | append (e : E)
  | sync
  | ack
  | linkBackup
  | tmpClear
  | tmpWrite (e : E)
  | tmpSync
  | rename

variable {St E : Type}

def step (fs : Fs E) : Op E → Fs E
  | .append e => { fs with mani := { fs.mani with pending := fs.mani.pending ++ [e] } }
  | .sync => { fs with mani := ⟨fs.mani.durable ++ fs.mani.pending, []⟩ }
  | .ack => fs
  | .linkBackup => { fs with backups := fs.backups ++ [fs.mani.durable ++ fs.mani.pending], linked := true }
  | .tmpClear => { fs with tmp := none }          -- `if tmp.exists() { remove_file(tmp) }`
  | .tmpWrite e => match fs.tmp with               -- `OpenOptions::create(true).append(true)` + `write_all`
    | none => { fs with tmp := some ⟨[], [e]⟩ }
    | some f => { fs with tmp := some { f with pending := f.pending ++ [e] } }
  | .tmpSync => { fs with tmp := fs.tmp.map (fun f => ⟨f.durable ++ f.pending, []⟩) }
  | .rename => match fs.tmp with
    | some f => { fs with mani := f, tmp := none, linked := false }
    | none => fs

def run (fs : Fs E) (ops : List (Op E)) : Fs E := ops.foldl step fs

def replay (A : Algebra St E) (es : List E) : St := es.foldl A.apply A.empty

/-- `to_edit` followed by `apply_edit` on the empty state gives every reachable state back -/
def Lawful (A : Algebra St E) : Prop :=
  ∀ es, A.apply A.empty (A.rollup (replay A es)) = replay A es

/-- `Manifest::open` after a crash; (b): only synced bytes survive, (a): everything written does -/
def recoverB (A : Algebra St E) (fs : Fs E) : St := replay A fs.mani.durable
def recoverA (A : Algebra St E) (fs : Fs E) : St := replay A (fs.mani.durable ++ fs.mani.pending)

inductive Client (E : Type) where
  | edit (e : E)
  | rollover
  /-- `apply` whose write pushes MANIFEST over the rollover ratio: `_apply` rolls over before it
      returns, so the acknowledgement comes after the rename -/
  | editRoll (e : E)

/-- the client's in-memory state is the replay of the edits applied so far -/
def block (A : Algebra St E) (sofar : List E) : Client E → List (Op E)
  | .edit e => [.append e, .sync, .ack]
  | .rollover => [.linkBackup, .tmpClear, .tmpWrite (A.rollup (replay A sofar)), .tmpSync, .rename]
  | .editRoll e => [.append e, .sync, .linkBackup, .tmpClear, .tmpWrite (A.rollup (replay A (sofar ++ [e]))),
                    .tmpSync, .rename, .ack]

def sofarAfter (sofar : List E) : Client E → List E
  | .edit e => sofar ++ [e]
  | .rollover => sofar
  | .editRoll e => sofar ++ [e]

def opsOf (A : Algebra St E) : List (Client E) → List E → List (Op E)
  | [], _ => []
  | c :: cs, sofar => block A sofar c ++ opsOf A cs (sofarAfter sofar c)

def editsOf : List (Client E) → List E
  | [] => []
  | .edit e :: cs => e :: editsOf cs
  | .rollover :: cs => editsOf cs
  | .editRoll e :: cs => e :: editsOf cs

/-- the directory a crash leaves behind: (a) every completed call persists, (b) bytes written but
    not synced are lost (directory operations persist in both) -/
def crashA (fs : Fs E) : Fs E :=
  { fs with mani := ⟨fs.mani.durable ++ fs.mani.pending, []⟩,
            tmp := fs.tmp.map (fun f => ⟨f.durable ++ f.pending, []⟩) }
def crashB (fs : Fs E) : Fs E :=
  { fs with mani := ⟨fs.mani.durable, []⟩, tmp := fs.tmp.map (fun f => ⟨f.durable, []⟩) }

/-- the rollover `Manifest::open` performs on an existing MANIFEST, as repaired (D-13): if the
    newest backup is the same file as MANIFEST the previous rollover died between `link` and
    `rename` and is finished without a second link -/
def reopenOps (A : Algebra St E) (fs : Fs E) : List (Op E) :=
  (if fs.linked then [] else [Op.linkBackup]) ++
    [.tmpClear, .tmpWrite (A.rollup (replay A (fs.mani.durable ++ fs.mani.pending))), .tmpSync, .rename]

/-- … and as it was: always a complete rollover -/
def reopenOpsAsIs (A : Algebra St E) (fs : Fs E) : List (Op E) :=
  [.linkBackup, .tmpClear, .tmpWrite (A.rollup (replay A (fs.mani.durable ++ fs.mani.pending))), .tmpSync, .rename]

def acked (ops : List (Op E)) : Nat := (ops.filter (fun o => match o with | .ack => true | _ => false)).length
def appended (ops : List (Op E)) : Nat := (ops.filter (fun o => match o with | .append _ => true | _ => false)).length

end Blue.ManiCrash
