/-! `Version::next_compaction` (lsmtk/src/tree/mod.rs) as a FUNCTION: which compaction the selector
    hands to the compaction loop, given the options, the tree (per level the files in the order the
    version holds them: id, key range, size, newest timestamp) and the compactions in flight.

    Followed path by path:
    * `find_trivial_move` / `find_trivial_move_for_one_sst` (as repaired by 7dcb5fb) for
      `lower_level` 0, 1, … : the first hit wins;
    * the level-0 candidate: `compute_bounds` over the hull of level 0 and `find_best_compaction`;
      it is the *mandatory* compaction when `should_perform_mandatory_compaction`;
    * levels `len-2` down to 1 (skipped by the level curve unless a compaction is mandatory), every
      file in the order of the level: `compute_bounds`, `find_best_compaction`, then either the
      "clear out for level 0" replacement of the mandatory compaction or `score > best_score`;
    * `find_best_compaction`: slices level by level, the saturating `i64` sums, the early returns
      on `max_compaction_bytes` / `max_compaction_files` / `max_open_files`, `expand_compaction`
      (as repaired by e991005), `may_choose_compaction` (levels differ, open-file budget shared with
      the compactions in flight, no overlap with a compaction in flight), the empty-slice `break`.

    Keys are natural numbers (the driver ranks the byte strings of a request in byte order; the
    selector only compares keys).  `partition_point` is the length of the prefix on which its
    predicate holds (equal to the binary search on a level sorted by key, invariant I1).

    Floating point: the code uses `f64` in two places, both functions of the *level* and an
    integer.  `level_curve(level) = ceil(log10(level)) + 1` is a table over the 16 levels;
    `ceil(score as f64 * level_factor) as i64` with `level_factor = log2(level+1)/(level+1) + 1` is
    computed here exactly in integer arithmetic (round-to-nearest-even `i64 → f64`, the IEEE-754
    product, `ceil`, the saturating cast) from the bit patterns of the 16 factors.  Both tables are
    parameters (`Num`) of the selector: every theorem holds for all of them, and the instance the
    driver runs (`ieee`) is compared with the `f64` expressions of the implementation by a request
    of its own. -/
namespace Blue.NextCompaction

structure File where
  id : Nat
  first : Nat
  last : Nat
  size : Nat
  /-- biggest timestamp -/
  bts : Nat
  /-- the versions the file holds (key, timestamp); the selector never looks at them -/
  vers : List (Nat × Nat)

structure Opts where
  maxOpenFiles : Nat
  maxCompactionBytes : Nat
  maxCompactionFiles : Nat
  mandFiles : Nat
  mandBytes : Nat
deriving DecidableEq

/-- the floating-point parts -/
structure Num where
  /-- `level_curve` -/
  curve : Nat → Nat
  /-- `(score as f64 * level_factor(level)).ceil() as i64` -/
  scale : Nat → Int → Int

/-- `CompactionCore` -/
structure Core where
  lower : Nat
  upper : Nat
  first : Nat
  last : Nat
  inputs : List Nat
  size : Nat
deriving DecidableEq

abbrev Tree := List (List File)

def level (t : Tree) (i : Nat) : List File := t.getD i []

/-! ## integer arithmetic of the code -/

def i64Max : Int := 9223372036854775807
def i64Min : Int := -9223372036854775808

def clamp (x : Int) : Int := if x > i64Max then i64Max else if x < i64Min then i64Min else x

/-- `i64::saturating_add` -/
def satAdd (a b : Int) : Int := clamp (a + b)

/-- `x as i64` for a `u64` / `usize` -/
def asI64 (n : Nat) : Int :=
  let m := n % 18446744073709551616
  if m < 9223372036854775808 then (m : Int) else (m : Int) - 18446744073709551616

/-- `u64::saturating_add` -/
def satAddU (a b : Nat) : Nat := if a + b > 18446744073709551615 then 18446744073709551615 else a + b

/-- `Level::size` -/
def levelSize (l : List File) : Nat := l.foldl (fun a f => satAddU a f.size) 0

/-- every level holds a file -/
def full (t : Tree) : Bool := t.all (fun l => !l.isEmpty)

/-- `should_perform_mandatory_compaction` -/
def mandatoryFlag (o : Opts) (t : Tree) : Bool :=
  decide ((level t 0).length ≥ o.mandFiles) || decide (levelSize (level t 0) ≥ o.mandBytes) || full t

/-! ## `compute_bounds` -/

/-- `Level::lower_bound`: `partition_point(|x| key > x.last_key)` -/
def lowerBound (l : List File) (key : Nat) : Nat := (l.takeWhile (fun x => decide (x.last < key))).length

/-- `Level::upper_bound`: `partition_point(|x| key >= x.first_key)` -/
def upperBound (l : List File) (key : Nat) : Nat := (l.takeWhile (fun x => decide (x.first ≤ key))).length

/-- `LevelSlice` -/
structure Slice where
  lo : Nat
  hi : Nat
  first : Nat
  last : Nat

def minKey : List Nat → Nat
  | [] => 0
  | k :: ks => ks.foldl (fun m x => if x < m then x else m) k

def maxKey : List Nat → Nat
  | [] => 0
  | k :: ks => ks.foldl (fun m x => if m < x then x else m) k

/-- `if lower_bound < len && ssts[lower_bound].first_key < first_key { first_key = … }` -/
def growFirst (lvl : List File) (lo first : Nat) : Nat :=
  match lvl[lo]? with
  | some f => if f.first < first then f.first else first
  | none => first

/-- `if upper_bound > lower_bound && ssts[upper_bound - 1].last_key > last_key { last_key = … }` -/
def growLast (lvl : List File) (lo hi last : Nat) : Nat :=
  if lo < hi then
    match lvl[hi - 1]? with
    | some f => if last < f.last then f.last else last
    | none => last
  else last

/-- the `while !fixed_point` loop of `compute_bounds` for one level (fuel: every round that is not
    the last one moves a key to a file boundary further out, `fixBounds_fixed`) -/
def fixBounds (lvl : List File) : Nat → Nat → Nat → Nat → Nat → Slice
  | 0, first, last, lo, hi => ⟨lo, hi, first, last⟩
  | fuel + 1, first, last, lo, hi =>
    let first' := growFirst lvl lo first
    let last' := growLast lvl lo hi last
    let lo' := lowerBound lvl first'
    let hi' := upperBound lvl last'
    if first' == first && last' == last && lo' == lo && hi' == hi then ⟨lo', hi', first', last'⟩
    else fixBounds lvl fuel first' last' lo' hi'

/-- one level of `compute_bounds` below level 0 -/
def levelBounds (lvl : List File) (first last : Nat) : Slice :=
  fixBounds lvl (2 * lvl.length + 2) first last (lowerBound lvl first) (upperBound lvl last)

def boundsLoop (lower : Nat) : Nat → List (List File) → Nat → Nat → List Slice
  | _, [], _, _ => []
  | idx, lvl :: rest, first, last =>
    if idx < lower then ⟨0, 0, 0, 0⟩ :: boundsLoop lower (idx + 1) rest first last
    else if idx = 0 then ⟨0, lvl.length, first, last⟩ :: boundsLoop lower 1 rest first last
    else
      let s := levelBounds lvl first last
      s :: boundsLoop lower (idx + 1) rest s.first s.last

/-- `compute_bounds(lower_level, first_key, last_key)` -/
def computeBounds (t : Tree) (lower : Nat) (first last : Nat) : List Slice :=
  boundsLoop lower 0 t first last

/-! ## `may_choose_compaction` -/

/-- `CompactionCore::overlapping` -/
def overlapping (a b : Core) : Bool :=
  decide (a.lower ≤ b.upper) && decide (b.lower ≤ a.upper) && decide (a.first ≤ b.last) && decide (b.first ≤ a.last)

def mayChoose (o : Opts) (og : List Core) (c : Core) : Bool :=
  if c.lower == c.upper then false
  else if c.inputs.length + (og.map (fun g => g.inputs.length)).sum ≥ o.maxOpenFiles then false
  else !(og.any (fun g => overlapping g c))

/-! ## trivial moves -/

/-- `find_trivial_move_for_one_sst` -/
def trivialOne (o : Opts) (og : List Core) (t : Tree) (lower : Nat) (f : File) : Option Core :=
  if lower > 0 && lowerBound (level t lower) f.first + 1 != upperBound (level t lower) f.last then none
  else if decide (lower + 1 < t.length)
      && lowerBound (level t (lower + 1)) f.first == upperBound (level t (lower + 1)) f.last then
    let core : Core := ⟨lower, lower + 1, f.first, f.last, [f.id], f.size⟩
    if mayChoose o og core then some core else none
  else none

/-- the first file with the smallest `biggest_timestamp` (`Iterator::min_by`) -/
def oldest : List File → Option File
  | [] => none
  | f :: fs => some (fs.foldl (fun m x => if x.bts < m.bts then x else m) f)

def firstSome {α β : Type} (f : α → Option β) : List α → Option β
  | [] => none
  | a :: as => match f a with
    | some b => some b
    | none => firstSome f as

/-- `find_trivial_move(level)` -/
def trivialMove (o : Opts) (og : List Core) (t : Tree) (lower : Nat) : Option Core :=
  if lower = 0 then
    match oldest (level t 0) with
    | none => none
    | some f => trivialOne o og t 0 f
  else firstSome (trivialOne o og t lower) (level t lower)

/-! ## `expand_compaction` -/

/-- one level of `expand_compaction`: `none` is the early `return` -/
def expandLevel (o : Opts) (first last : Nat) (inputs : List Nat) : List File → List File → Option (List File)
  | [], toAdd => some toAdd
  | f :: rest, toAdd =>
    let n := inputs.length + toAdd.length
    if n > o.maxCompactionFiles || n > o.maxOpenFiles then none
    else if inputs.contains f.id then expandLevel o first last inputs rest toAdd
    else if decide (first ≤ f.first) && decide (f.last ≤ last) then expandLevel o first last inputs rest (toAdd ++ [f])
    else if decide (f.first ≤ last) && decide (first ≤ f.last) then none
    else expandLevel o first last inputs rest toAdd

/-- the loop of `expand_compaction` over the levels given (upper level first): the inputs afterwards -/
def expandLoop (o : Opts) (t : Tree) : List Nat → Nat → Nat → List Nat → List Nat
  | [], _, _, inputs => inputs
  | lvl :: rest, first, last, inputs =>
    match expandLevel o first last inputs (level t lvl) [] with
    | none => inputs
    | some [] => expandLoop o t rest first last inputs
    | some (a :: as) =>
      expandLoop o t rest (minKey ((a :: as).map (·.first))) (maxKey ((a :: as).map (·.last)))
        (inputs ++ (a :: as).map (·.id))

/-- the `k` levels from `lower` on, deepest first: `(lower..lower+k).rev()` -/
def levelsDown (lower : Nat) : Nat → List Nat
  | 0 => []
  | k + 1 => (lower + k) :: levelsDown lower k

/-- `expand_compaction` (`for level in (lower_level..=upper_level).rev()`): only the inputs change -/
def expand (o : Opts) (t : Tree) (c : Core) : Core :=
  { c with inputs := expandLoop o t (levelsDown c.lower (c.upper + 1 - c.lower)) c.first c.last c.inputs }

/-! ## `find_best_compaction` -/

/-- `overlap[lower..upper].fold(0, |l, r| l.saturating_add(l).saturating_add(r))` -/
def accOf (xs : List Int) : Int := xs.foldl (fun l r => satAdd (satAdd l l) r) 0

/-- `overlap[lower..=upper].fold(0, i64::saturating_add)` -/
def sumOf (xs : List Int) : Int := xs.foldl satAdd 0

/-- the bytes of a slice, `saturating_add` of `file_size as i64` -/
def overlapOf (files : List File) : Int := files.foldl (fun a f => satAdd a (asI64 f.size)) 0

def sliceFiles (lvl : List File) (b : Slice) : List File := (lvl.drop b.lo).take (b.hi - b.lo)

/-- the loop of `find_best_compaction` from `upper` on.  `prev`: `overlap[lower..upper]`;
    `inputs`: the inputs pushed so far; `cand`, `best`: candidate and `best_score` -/
def bestLoop (o : Opts) (og : List Core) (t : Tree) (lower : Nat) (bounds : List Slice) :
    Nat → Nat → List Int → List Nat → Option Core → Int → Option Core × Int
  | 0, _, _, _, cand, best => (cand, best)
  | fuel + 1, upper, prev, inputs, cand, best =>
    if upper ≥ t.length then (cand, best)
    else
      let b := bounds.getD upper ⟨0, 0, 0, 0⟩
      let files := sliceFiles (level t upper) b
      let ov := overlapOf files
      let inputs' := inputs ++ files.map (·.id)
      let score := accOf prev - ov
      let csize := sumOf (prev ++ [ov])
      if decide (csize > asI64 o.maxCompactionBytes) && lower != 0 then (cand, best)
      else if decide (inputs'.length > o.maxCompactionFiles) || decide (inputs'.length > o.maxOpenFiles) then (cand, best)
      else
        let core := expand o t ⟨lower, upper, b.first, b.last, inputs', csize.toNat⟩
        let take := decide (lower < upper) && decide (score > best) && mayChoose o og core
        let cand' := if take then some core else cand
        let best' := if take then score else best
        if b.lo == b.hi then (cand', best')
        else bestLoop o og t lower bounds fuel (upper + 1) (prev ++ [ov]) inputs' cand' best'

/-- `find_best_compaction(lower_level, bounds)` -/
def findBest (o : Opts) (og : List Core) (t : Tree) (lower : Nat) (bounds : List Slice) : Option Core × Int :=
  bestLoop o og t lower bounds (t.length + 1) lower [] [] none i64Min

/-! ## `next_compaction` -/

/-- `candidate`, `best_score`, `mandatory` -/
structure Sel where
  cand : Option Core
  best : Int
  mand : Option Core

/-- the level-0 stage: the hull of level 0 -/
def l0Stage (o : Opts) (og : List Core) (t : Tree) : Sel :=
  if (level t 0).isEmpty then ⟨none, i64Min, none⟩
  else
    let bounds := computeBounds t 0 (minKey ((level t 0).map (·.first))) (maxKey ((level t 0).map (·.last)))
    match findBest o og t 0 bounds with
    | (some c, score) => if mandatoryFlag o t then ⟨none, i64Min, some c⟩ else ⟨some c, score, none⟩
    | (none, _) => ⟨none, i64Min, none⟩

/-- `mandatory.as_ref().map(|x| x.core.size).unwrap_or_default()` -/
def mandSize (st : Sel) : Nat := match st.mand with | some m => m.size | none => 0

/-- what a candidate found for a file of `lower_level` does to `candidate` / `mandatory`: the
    "clear out for level 0" replacement of the mandatory compaction, else `score > best_score` -/
def fileUpdate (n : Num) (o : Opts) (t : Tree) (lower : Nat) (st : Sel) (c : Core) (score : Int) : Sel :=
  if mandatoryFlag o t && (level t lower).all (fun x => c.inputs.contains x.id)
      && decide (c.size < mandSize st) then
    { st with mand := some c }
  else if score > st.best then { st with cand := some c, best := n.scale lower score }
  else st

/-- the body of `for sst in self.levels[lower_level].ssts.iter()` -/
def fileStep (n : Num) (o : Opts) (og : List Core) (t : Tree) (lower : Nat) (st : Sel) (f : File) : Sel :=
  match findBest o og t lower (computeBounds t lower f.first f.last) with
  | (some c, score) => fileUpdate n o t lower st c score
  | (none, _) => st

/-- the body of `for lower_level in (1..len-1).rev()` -/
def levelStep (n : Num) (o : Opts) (og : List Core) (t : Tree) (st : Sel) (lower : Nat) : Sel :=
  if decide (levelSize (level t lower) / n.curve lower > levelSize (level t (lower - 1))) && !mandatoryFlag o t then st
  else (level t lower).foldl (fileStep n o og t lower) st

/-- `(1..len-1).rev()` -/
def deeperLevels (len : Nat) : List Nat := (List.range (len - 2)).map (fun k => len - 2 - k)

/-- `Version::next_compaction` -/
def nextCompaction (n : Num) (o : Opts) (t : Tree) (og : List Core) : Option Core :=
  match firstSome (trivialMove o og t) (List.range (t.length - 1)) with
  | some c => some c
  | none =>
    let st := (deeperLevels t.length).foldl (levelStep n o og t) (l0Stage o og t)
    match st.mand with
    | some m => some m
    | none =>
      match st.cand with
      | some c => if st.best ≥ 0 then some c else none
      | none => none

/-! ## the tree invariant the selector relies on, as a check the driver evaluates -/

def sortedB : List File → Bool
  | [] => true
  | a :: r => r.all (fun b => decide (a.last ≤ b.first)) && sortedB r

def nodupB : List Nat → Bool
  | [] => true
  | a :: r => !r.contains a && nodupB r

def wfB (f : File) : Bool :=
  decide (f.first ≤ f.last) && f.vers.all (fun v => decide (f.first ≤ v.1) && decide (v.1 ≤ f.last))

/-- files well-formed, levels below level 0 sorted by key (I1), file ids distinct -/
def invB (t : Tree) : Bool :=
  t.all (fun l => l.all wfB) && t.tail.all sortedB && nodupB (t.flatten.map (·.id))

/-! ## the floating-point instance the driver runs -/

/-- `level_curve`: `1` up to level 2, else `ceil(log10(level)) + 1` -/
def curveTable (lvl : Nat) : Nat := if lvl ≤ 2 then 1 else if lvl ≤ 10 then 2 else 3

/-- bit patterns of `(level as f64 + 1.0).log2() / (level + 1) as f64 + 1.0` for levels 0..15 -/
def factorBits : List Nat :=
  [0x3ff0000000000000, 0x3ff8000000000000, 0x3ff874008bdfe9ce, 0x3ff8000000000000,
   0x3ff76e1f9d63dafa, 0x3ff6e4aaf09a9f91, 0x3ff66ab4246125c4, 0x3ff6000000000000,
   0x3ff5a2ab07ea9bde, 0x3ff550a9684b8716, 0x3ff5082aa22fb3de, 0x3ff4c7aacda2a51e,
   0x3ff48dec543dd408, 0x3ff459ec5b55252b, 0x3ff42ad77292559f, 0x3ff4000000000000]

/-- a positive value `m * 2^e` rounded to 53 significant bits, ties to even -/
def round53 (m : Nat) (e : Int) : Nat × Int :=
  let bits := if m = 0 then 0 else m.log2 + 1
  if bits ≤ 53 then (m, e)
  else
    let sh := bits - 53
    let q := m / 2 ^ sh
    let r := m % 2 ^ sh
    let half := 2 ^ (sh - 1)
    let q' := if r > half || (r == half && q % 2 == 1) then q + 1 else q
    (q', e + sh)

/-- `ceil` of `± m * 2^e` -/
def ceilSigned (neg : Bool) (m : Nat) (e : Int) : Int :=
  if e ≥ 0 then
    let v : Int := (m * 2 ^ e.toNat : Nat)
    if neg then -v else v
  else
    let d := 2 ^ (-e).toNat
    if neg then -((m / d : Nat) : Int) else (((m + d - 1) / d : Nat) : Int)

/-- mantissa and exponent of a normal positive `f64` -/
def decodeF64 (bits : Nat) : Nat × Int :=
  (2 ^ 52 + bits % 2 ^ 52, ((bits / 2 ^ 52 % 2048 : Nat) : Int) - 1075)

/-- `(score as f64 * factor).ceil() as i64`, exactly -/
def scaleBits (bits : Nat) (score : Int) : Int :=
  let (fm, fe) := decodeF64 bits
  let (sm, se) := round53 score.natAbs 0
  let (pm, pe) := round53 (sm * fm) (se + fe)
  clamp (ceilSigned (decide (score < 0)) pm pe)

def ieee : Num where
  curve := curveTable
  scale := fun lvl score => scaleBits (factorBits.getD lvl 0x3ff0000000000000) score

end Blue.NextCompaction
