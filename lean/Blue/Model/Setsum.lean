/-! Model of `setsum/src/lib.rs`: eight `u32` columns, one prime per column.
    Columns are `Nat` with the `u32`/`u64` conversions of the code made explicit. -/
namespace Blue.Setsum

def COLUMNS : Nat := 8
def U32 : Nat := 4294967296

/-- `SETSUM_PRIMES` (checked against the source by the translator) -/
def primes : Vector Nat 8 :=
  #v[4294967291, 4294967279, 4294967231, 4294967197, 4294967189, 4294967161, 4294967143, 4294967111]

abbrev State := Vector Nat 8

/-- one column of `add_state`: `u64` sum, one conditional subtraction, `as u32` -/
def addCol (p a b : Nat) : Nat :=
  let sum := a + b
  (if sum ≥ p then sum - p else sum) % U32

def addState (l r : State) : State := Vector.ofFn fun i => addCol primes[i] l[i] r[i]

/-- one column of `invert_state`: `p - a` in `u32`; `none` is the arithmetic underflow
    (panic with overflow checks, a wrapped non-residue without) -/
def invCol (p a : Nat) : Option Nat := if a ≤ p then some (p - a) else none

def invertState (s : State) : Option State :=
  if ∀ i : Fin 8, s[i] ≤ primes[i] then some (Vector.ofFn fun i => primes[i] - s[i]) else none

/-- little-endian `u32` from four bytes -/
def le32 (b0 b1 b2 b3 : Nat) : Nat := b0 + 256 * b1 + 65536 * b2 + 16777216 * b3

/-- `hash_to_state`: eight LE words, each reduced once -/
def reduceCol (p num : Nat) : Nat := if num ≥ p then num - p else num

def hashToState (words : Vector Nat 8) : State := Vector.ofFn fun i => reduceCol primes[i] words[i]

def zero : State := Vector.replicate 8 0

def add (a b : State) : State := addState a b
def sub (a b : State) : Option State := (invertState b).map (addState a)

/-- `insert_vectored` / `remove_vectored` with the item already hashed to its eight words -/
def insert (s : State) (item : Vector Nat 8) : State := addState s (hashToState item)
def remove (s : State) (item : Vector Nat 8) : Option State :=
  (invertState (hashToState item)).map (addState s)

/-- `digest`: 32 bytes, column-major little-endian -/
def colBytes (c : Nat) : List Nat := [c % 256, c / 256 % 256, c / 65536 % 256, c / 16777216 % 256]
def digest (s : State) : List Nat := s.toList.flatMap colBytes

def bytesCol : List Nat → Nat
  | [b0, b1, b2, b3] => le32 b0 b1 b2 b3
  | _ => 0

/-- `from_digest` (32 bytes in) -/
def chunks4 : List Nat → List (List Nat)
  | b0 :: b1 :: b2 :: b3 :: rest => [b0, b1, b2, b3] :: chunks4 rest
  | _ => []

def ofList (cols : List Nat) : Option State :=
  if h : cols.length = 8 then some ⟨cols.toArray, by simpa using h⟩ else none

/-- `from_digest` as in the source: columns are taken as they come -/
def fromDigestOld (d : List Nat) : Option State :=
  if d.length = 32 then ofList ((chunks4 d).map bytesCol) else none

/-- `from_digest` with each column reduced as `hash_to_state` does (repair of D-14) -/
def fromDigest (d : List Nat) : Option State :=
  (fromDigestOld d).map hashToState

/-- `{:02x}` of one byte -/
def hexDigit (n : Nat) : Char :=
  match n with
  | 0 => '0' | 1 => '1' | 2 => '2' | 3 => '3' | 4 => '4' | 5 => '5' | 6 => '6' | 7 => '7'
  | 8 => '8' | 9 => '9' | 10 => 'a' | 11 => 'b' | 12 => 'c' | 13 => 'd' | 14 => 'e' | _ => 'f'

def hexByte (b : Nat) : List Char := [hexDigit (b / 16), hexDigit (b % 16)]

def hexdigest (s : State) : List Char := (digest s).flatMap hexByte

/-- `char::to_digit(16)` -/
def digitVal (c : Char) : Option Nat :=
  match c with
  | '0' => some 0 | '1' => some 1 | '2' => some 2 | '3' => some 3 | '4' => some 4
  | '5' => some 5 | '6' => some 6 | '7' => some 7 | '8' => some 8 | '9' => some 9
  | 'a' => some 10 | 'b' => some 11 | 'c' => some 12 | 'd' => some 13 | 'e' => some 14 | 'f' => some 15
  | 'A' => some 10 | 'B' => some 11 | 'C' => some 12 | 'D' => some 13 | 'E' => some 14 | 'F' => some 15
  | _ => none

/-- `u8::from_str_radix(two chars, 16)`: an optional leading `+`, then at least one digit -/
def parsePair (a b : Char) : Option Nat :=
  if a = '+' then digitVal b
  else match digitVal a, digitVal b with
    | some x, some y => some (16 * x + y)
    | _, _ => none

def parsePairs : List Char → Option (List Nat)
  | a :: b :: rest =>
    match parsePair a b, parsePairs rest with
    | some x, some xs => some (x :: xs)
    | _, _ => none
  | [] => some []
  | [_] => none

/-- `from_hexdigest` on ASCII input (non-ASCII input: see D-17) -/
def fromHexdigest (cs : List Char) : Option State :=
  if cs.length = 64 then (parsePairs cs).bind fromDigest else none

/-- the setsum of a list of (hashed) items, as the incremental API computes it -/
def ofItems (items : List (Vector Nat 8)) : State := items.foldl insert zero

end Blue.Setsum
