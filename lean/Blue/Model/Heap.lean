/-! Implicit binary heap, as `MergingCursor::{heapify, percolate_down}` (sst/src/merging_cursor.rs).
    Vectors are lists accessed with `l[i]?`. -/
namespace Blue.Heap

variable {α : Type}

def swap (l : List α) (i j : Nat) : List α :=
  match l[i]?, l[j]? with
  | some x, some y => (l.set i y).set j x
  | _, _ => l

/-- the child the comparator says is less (the Rust `child` selection) -/
def pickChild (lt : α → α → Bool) (l : List α) (i : Nat) : Option Nat :=
  match l[2*i+1]?, l[2*i+2]? with
  | none, _ => none
  | some _, none => some (2*i+1)
  | some xl, some xr => if lt xl xr then some (2*i+1) else some (2*i+2)

def percolateDown (lt : α → α → Bool) (l : List α) (i : Nat) : Nat → List α
  | 0 => l
  | fuel+1 =>
    match pickChild lt l i with
    | none => l
    | some c =>
      match l[i]?, l[c]? with
      | some xi, some xc => if lt xi xc then l else percolateDown lt (swap l i c) c fuel
      | _, _ => l

/-- `heapify`: `for i in 0..n { percolate_down(n - i - 1) }` -/
def heapifyFrom (lt : α → α → Bool) (l : List α) : Nat → List α
  | 0 => l
  | k+1 => heapifyFrom lt (percolateDown lt l k l.length) k

def heapify (lt : α → α → Bool) (l : List α) : List α := heapifyFrom lt l l.length

end Blue.Heap
