import Blue.Model.Mani
import Blue.Model.ManiDir
/-! Reopen-time orphan clean-up, `LsmTree::cleanup_orphans` (lsmtk/src/tree/mod.rs): over all
    manifest fragments in order (`MANIFEST.<n>` ascending, then `MANIFEST`), skipping the first edit
    of each, a set collects what an edit removes and then drops what the same edit adds; what is
    left ("removed and not re-added") is renamed from `sst/` to `trash/` when it is still in `sst/`
    and no file of that name is in `trash/` yet.  Names are the digests the manifest lists. -/
namespace Blue.Orphans
open Blue.Mani

abbrev Name := List Nat

/-- one edit: `ssts_to_remove.insert` for every `rmed`, then `ssts_to_remove.remove` for every `added` -/
def scanEdit (set : List Name) (e : Edit) : List Name :=
  (set ++ e.rm).filter (fun x => !e.add.contains x)

/-- one fragment: the first edit is skipped -/
def scanFrag (set : List Name) (frag : List Edit) : List Name := (frag.drop 1).foldl scanEdit set

/-- all fragments, oldest first, `MANIFEST` last -/
def scan (frags : List (List Edit)) : List Name := frags.foldl scanFrag []

def sstSuffix : Name := [46, 115, 115, 116]

/-- the digests `cleanup_orphans` renames to `trash/` -/
def moved (sst trash : List Name) (frags : List (List Edit)) : List Name :=
  (scan frags).filter (fun x => sst.contains x && !trash.contains (x ++ sstSuffix))

/-- the manifest state the store opens with: the replay of `MANIFEST`, the last fragment -/
def listed (frags : List (List Edit)) : List Name :=
  match frags.getLast? with
  | some l => (Blue.ManiCrash.replay maniAlgebra l).strs
  | none => []

/-- the scan as written before the same-name re-add was taken into account (a set of everything
    ever removed): kept to show what the `remove` of the added names is for -/
def scanNoReadd (frags : List (List Edit)) : List Name := frags.flatMap (fun f => (f.drop 1).flatMap (·.rm))

end Blue.Orphans
