import Blue.Model.Mani
import Blue.Model.ManiDir
/-! Reopen-time orphan clean-up, `LsmTree::cleanup_orphans` (lsmtk/src/tree/mod.rs): over all
    manifest fragments in order (`MANIFEST.<n>` ascending, then `MANIFEST`), skipping the first edit
    of each, a set collects what an edit removes and then drops what the same edit adds; what is
    left ("removed and not re-added") is renamed from `sst/` to `trash/` when it is still in `sst/`
    and no file of that name is in `trash/` yet.  Names are the digests the manifest lists. -/
namespace Blue.Orphans
open Blue.Mani

abbrev Name := List Nat

/-- one edit: `ssts_to_remove.insert` for every `rmed`, then `ssts_to_remove.remove` for every `added` -/
def scanEdit (set : List Name) (e : Edit) : List Name :=
  (set ++ e.rm).filter (fun x => !e.add.contains x)

/-- one fragment: the first edit is skipped -/
def scanFrag (set : List Name) (frag : List Edit) : List Name := (frag.drop 1).foldl scanEdit set

/-- all fragments, oldest first, `MANIFEST` last -/
def scan (frags : List (List Edit)) : List Name := frags.foldl scanFrag []

def sstSuffix : Name := [46, 115, 115, 116]

/-- the digests `cleanup_orphans` renames to `trash/` -/
def moved (sst trash : List Name) (frags : List (List Edit)) : List Name :=
  (scan frags).filter (fun x => sst.contains x && !trash.contains (x ++ sstSuffix))

/-- the manifest state the store opens with: the replay of `MANIFEST`, the last fragment -/
def listed (frags : List (List Edit)) : List Name :=
  match frags.getLast? with
  | some l => (Blue.ManiCrash.replay maniAlgebra l).strs
  | none => []

/-- the scan as written before the same-name re-add was taken into account (a set of everything
    ever removed): kept to show what the `remove` of the added names is for -/
def scanNoReadd (frags : List (List Edit)) : List Name := frags.flatMap (fun f => (f.drop 1).flatMap (·.rm))

/-! The INPUT of the scan.  `cleanup_orphans` runs at the end of `LsmTree::from_manifest`; it lists
    `mani/` itself (`list_mani_fragments`) and reads every entry, the live `MANIFEST` included, AS
    IT IS AT THAT MOMENT.  `LsmTree::open` gets there right after `Manifest::open` rolled the
    manifest over (`MANIFEST` = the roll-up and nothing else); `KeyValueStore::open` replays the
    logs in between (`recover` / `recover_one`), and every replayed log whose file the manifest does
    not list appends an edit `+file` to the live `MANIFEST`. -/

/-- the fragments the scan reads at an open: the numbered fragments, oldest first (the last of them
    is what `MANIFEST` was before this open rolled it over), then the live `MANIFEST` at the time of
    the scan: the roll-up followed by the edits written since the rollover (log recovery) -/
def scanInput (numbered : List (List Edit)) (rollup : Edit) (recovery : List Edit) : List (List Edit) :=
  numbered ++ [rollup :: recovery]

/-- how many of the entries `list_mani_fragments` returns the scan leaves out: none (`scan` folds
    over all of `scanInput`); tied to the source in `Blue.Proofs.ConstsTieC08` -/
def entriesDropped : Nat := 0

/-- a scan that leaves the live `MANIFEST` out (`manis.pop()`): "opening the manifest just rolled it
    over, so `MANIFEST` holds only the roll-up, which is skipped anyway" -/
def scanSkipLive (frags : List (List Edit)) : List Name := scan frags.dropLast

/-- what a clean-up with that scan renames -/
def movedSkipLive (sst trash : List Name) (frags : List (List Edit)) : List Name :=
  (scanSkipLive frags).filter (fun x => sst.contains x && !trash.contains (x ++ sstSuffix))

end Blue.Orphans
