import Blue.Model.Wire
import Blue.Model.Proto
/-! The full schema language of prototk messages (property C15): what `#[derive(Message)]`
    generates for structs and enums, the `field_types::*` it calls, `Option` / `Vec` cardinalities,
    nested messages and `Result`.  It extends the flat interpreter of `Blue/Model/Proto.lean`
    (four payload kinds, singular fields) to every field type and container and adds the *error
    class* of every failing decode, because the correspondence check compares decode results by
    class and value.

    Decoder details mirrored from the code (each a place where a tidy model would diverge):
    * `FieldIterator::next` cuts the slice it hands to a struct field's unpacker at the canonical
      size of the varint it read, so a non-minimal value or length prefix makes the field's own
      unpacker fail (`fieldStepE`);
    * an enum's generated `unpack` reads its payload from the *whole remaining buffer*
      (`unpack_from`), so non-minimal varints are accepted there, it consumes exactly one field and
      returns the rest; a struct consumes everything and returns nothing;
    * a struct's `unpack` returns a field's error at once, the iterator's error only at the end;
    * a named enum variant skips unknown fields like a struct (after the repair of D-C15-named; the
      unrepaired code returns `unknown-discriminant`: `namedVariantStrict`);
    * `Result<T,E>` is decoded by buffertk: the tag is a bare varint compared with 10 / 18;
    * `message<M>::unpack` requires the nested message to consume its whole frame
      (`wrong-length` after the repair of D-21; the unrepaired code asserts);
    * `float` has wire type 5 (after the repair of D-C15-float; the unrepaired code declares wire type 1
      while writing four bytes). -/
namespace Blue.ProtoMsg
open Blue.Wire

/-- the error codes of buffertk / prototk (`CODE_*`) -/
inductive Err where
  | bufferTooShort | varintOverflow | unsignedOverflow | signedOverflow | tagTooLarge
  | unknownDiscriminant | invalidFieldNumber | unhandledWireType | wrongLength | stringEncoding
deriving DecidableEq, Repr

abbrev R (α : Type) := Except Err α

/-- `prototk::field_types::*` except `message` -/
inductive Scalar where
  | int32 | int64 | uint32 | uint64 | sint32 | sint64 | bool
  | fixed32 | fixed64 | sfixed32 | sfixed64 | float | double
  | bytes | bytesN (n : Nat) | string
deriving DecidableEq, Repr

def Scalar.wt : Scalar → WT
  | .int32 | .int64 | .uint32 | .uint64 | .sint32 | .sint64 | .bool => .varint
  | .fixed32 | .sfixed32 | .float => .thirtyTwo
  | .fixed64 | .sfixed64 | .double => .sixtyFour
  | .bytes | .bytesN _ | .string => .lengthDelimited

/-- values: integers of every width and signedness are `int`, floats are their bit patterns,
    `Option` is `none`/`some`, `Vec` is `list`, a struct is the list of its slots, an enum value is
    the index of its variant with the payload (`struct []` for a unit variant, the slots of a
    named one); `Result` is variant 0 (`Ok`) or 1 (`Err`) -/
inductive Val where
  | int (i : Int)
  | bytes (b : List Nat)
  | none
  | some (v : Val)
  | list (vs : List Val)
  | struct (vs : List Val)
  | variant (idx : Nat) (payload : Val)

inductive Card where
  | one | opt | rep
deriving DecidableEq, Repr

mutual
inductive Ty where
  | scalar (s : Scalar)
  | msg (m : Msg)
inductive Field where
  | mk (num : Nat) (card : Card) (ty : Ty)
inductive Variant where
  | unit (num : Nat)
  | tuple (num : Nat) (ty : Ty)
  | named (num : Nat) (fields : List Field)
inductive Msg where
  | struct (fields : List Field)
  | enum (variants : List Variant) (dflt : Val)
  | result (ok err : Msg) (dflt : Val)
end

def Field.num : Field → Nat | .mk n _ _ => n
def Field.card : Field → Card | .mk _ c _ => c
def Field.ty : Field → Ty | .mk _ _ t => t

def Ty.wt : Ty → WT
  | .scalar s => s.wt
  | .msg _ => .lengthDelimited

def Variant.num : Variant → Nat
  | .unit n | .tuple n _ | .named n _ => n

def Variant.wt : Variant → WT
  | .tuple _ ty => ty.wt
  | _ => .lengthDelimited

/-! ## integer conversions (`as`, `try_into`, zig-zag) -/

def P31 : Int := 2147483648
def P32 : Nat := 4294967296
def P63 : Nat := 9223372036854775808

/-- `u64 as i64` -/
def i64OfU64 (n : Nat) : Int := if n < P63 then (n : Int) else (n : Int) - (U64 : Int)
/-- `i64 as u64` (also `i32 as u64`: sign extension) -/
def u64OfI64 (i : Int) : Nat := (i % (U64 : Int)).toNat
/-- `u32 as i32` -/
def i32OfU32 (n : Nat) : Int := if (n : Int) < P31 then (n : Int) else (n : Int) - (P32 : Int)
def u32OfI32 (i : Int) : Nat := (i % (P32 : Int)).toNat

/-- `prototk::zigzag` -/
def zigzag (i : Int) : Nat := if 0 ≤ i then (2 * i).toNat else (-2 * i - 1).toNat
/-- `prototk::unzigzag` -/
def unzigzag (n : Nat) : Int := if n % 2 = 0 then ((n / 2 : Nat) : Int) else -((n / 2 : Nat) : Int) - 1

def inI32 (i : Int) : Bool := decide (-P31 ≤ i) && decide (i < P31)

/-! ## UTF-8 (`std::str::from_utf8`: Unicode table 3-7, well-formed byte sequences) -/

def cont (b : Nat) : Bool := decide (128 ≤ b) && decide (b ≤ 191)

def validUtf8Aux : Nat → List Nat → Bool
  | 0, _ => false
  | _, [] => true
  | f+1, b0 :: rest =>
    if b0 < 128 then validUtf8Aux f rest
    else if 194 ≤ b0 ∧ b0 ≤ 223 then
      match rest with
      | b1 :: r => cont b1 && validUtf8Aux f r
      | _ => false
    else if 224 ≤ b0 ∧ b0 ≤ 239 then
      match rest with
      | b1 :: b2 :: r =>
        (if b0 = 224 then decide (160 ≤ b1) && decide (b1 ≤ 191)
         else if b0 = 237 then decide (128 ≤ b1) && decide (b1 ≤ 159)
         else cont b1) && cont b2 && validUtf8Aux f r
      | _ => false
    else if 240 ≤ b0 ∧ b0 ≤ 244 then
      match rest with
      | b1 :: b2 :: b3 :: r =>
        (if b0 = 240 then decide (144 ≤ b1) && decide (b1 ≤ 191)
         else if b0 = 244 then decide (128 ≤ b1) && decide (b1 ≤ 143)
         else cont b1) && cont b2 && cont b3 && validUtf8Aux f r
      | _ => false
    else false

def validUtf8 (bs : List Nat) : Bool := validUtf8Aux (bs.length + 1) bs

/-! ## scalar field types -/

/-- `Packable for <field type>`: the payload after the tag -/
def encScalar (s : Scalar) (v : Val) : List Nat :=
  match s, v with
  | .int32, .int i | .int64, .int i => encVarint (u64OfI64 i)
  | .uint32, .int i | .uint64, .int i => encVarint i.toNat
  | .sint32, .int i | .sint64, .int i => encVarint (zigzag i)
  | .bool, .int i => encVarint (if i = 0 then 0 else 1)
  | .fixed32, .int i | .float, .int i => Blue.Proto.leBytes 4 i.toNat
  | .sfixed32, .int i => Blue.Proto.leBytes 4 (u32OfI32 i)
  | .fixed64, .int i | .double, .int i => Blue.Proto.leBytes 8 i.toNat
  | .sfixed64, .int i => Blue.Proto.leBytes 8 (u64OfI64 i)
  | .bytes, .bytes b | .bytesN _, .bytes b | .string, .bytes b => encBytes b
  | _, _ => []

def decVarintE (bs : List Nat) : R (Nat × List Nat) :=
  match decVarint bs with
  | none => .error .varintOverflow
  | some r => .ok r

/-- the length-delimited prefix shared by `bytes`, `string`, `bytesNN`, `message`,
    `take_length_prefixed`: the frame and what follows it -/
def decFrame (bs : List Nat) : R (List Nat × List Nat) :=
  match decVarint bs with
  | none => .error .varintOverflow
  | some (n, rest) => if rest.length < n then .error .bufferTooShort else .ok (rest.take n, rest.drop n)

def decFixed (k : Nat) (bs : List Nat) : R (Nat × List Nat) :=
  if bs.length < k then .error .bufferTooShort else .ok (Blue.Proto.fromLe (bs.take k), bs.drop k)

/-- `Unpackable for <field type>`: the value and the rest of the buffer -/
def decScalar (s : Scalar) (bs : List Nat) : R (Val × List Nat) :=
  match s with
  | .int32 =>
    match decVarintE bs with
    | .error e => .error e
    | .ok (x, rest) => if inI32 (i64OfU64 x) then .ok (.int (i64OfU64 x), rest) else .error .signedOverflow
  | .int64 =>
    match decVarintE bs with
    | .error e => .error e
    | .ok (x, rest) => .ok (.int (i64OfU64 x), rest)
  | .uint32 =>
    match decVarintE bs with
    | .error e => .error e
    | .ok (x, rest) => if x < P32 then .ok (.int x, rest) else .error .unsignedOverflow
  | .uint64 =>
    match decVarintE bs with
    | .error e => .error e
    | .ok (x, rest) => .ok (.int x, rest)
  | .sint32 =>
    match decVarintE bs with
    | .error e => .error e
    | .ok (x, rest) => if inI32 (unzigzag x) then .ok (.int (unzigzag x), rest) else .error .signedOverflow
  | .sint64 =>
    match decVarintE bs with
    | .error e => .error e
    | .ok (x, rest) => .ok (.int (unzigzag x), rest)
  | .bool =>
    match decVarintE bs with
    | .error e => .error e
    | .ok (x, rest) => .ok (.int (if x = 0 then 0 else 1), rest)
  | .fixed32 | .float =>
    match decFixed 4 bs with
    | .error e => .error e
    | .ok (x, rest) => .ok (.int x, rest)
  | .sfixed32 =>
    match decFixed 4 bs with
    | .error e => .error e
    | .ok (x, rest) => .ok (.int (i32OfU32 x), rest)
  | .fixed64 | .double =>
    match decFixed 8 bs with
    | .error e => .error e
    | .ok (x, rest) => .ok (.int x, rest)
  | .sfixed64 =>
    match decFixed 8 bs with
    | .error e => .error e
    | .ok (x, rest) => .ok (.int (i64OfU64 x), rest)
  | .bytes =>
    match decFrame bs with
    | .error e => .error e
    | .ok (b, rest) => .ok (.bytes b, rest)
  | .bytesN n =>
    match decFrame bs with
    | .error e => .error e
    | .ok (b, rest) =>
      if b.length < n then .error .bufferTooShort
      else if b.length ≠ n then .error .wrongLength
      else .ok (.bytes b, rest)
  | .string =>
    match decFrame bs with
    | .error e => .error e
    | .ok (b, rest) => if validUtf8 b then .ok (.bytes b, rest) else .error .stringEncoding

def dfltScalar : Scalar → Val
  | .bytes | .string => .bytes []
  | .bytesN n => .bytes (List.replicate n 0)
  | _ => .int 0

/-! ## tags and the field iterator, with error classes -/

/-- `Tag::unpack` -/
def decTagE (bs : List Nat) : R (Tag × List Nat) :=
  match decVarint bs with
  | none => .error .varintOverflow
  | some (v, rest) =>
    if v > U32MAX then .error .tagTooLarge
    else if !validFieldNumber (v / 8) then .error .invalidFieldNumber
    else match WT.ofBits (v % 8) with
      | none => .error .unhandledWireType
      | some wt => .ok (⟨v / 8, wt⟩, rest)

/-- one step of `FieldIterator::next` (see `Blue.Wire.fieldStep`) -/
def fieldStepE (bs : List Nat) : R ((Tag × List Nat) × List Nat) :=
  match decTagE bs with
  | .error e => .error e
  | .ok (tag, buf) =>
    match tag.wt with
    | .varint =>
      match decVarint buf with
      | none => .error .varintOverflow
      | some (x, rest) => .ok ((tag, buf.take (encVarint x).length), rest)
    | .sixtyFour => if buf.length < 8 then .error .bufferTooShort else .ok ((tag, buf.take 8), buf.drop 8)
    | .lengthDelimited =>
      match decVarint buf with
      | none => .error .varintOverflow
      | some (x, rest) =>
        if rest.length < x then .error .bufferTooShort
        else .ok ((tag, buf.take ((encVarint x).length + x)), rest.drop x)
    | .thirtyTwo => if buf.length < 4 then .error .bufferTooShort else .ok ((tag, buf.take 4), buf.drop 4)

/-- the whole iteration: the fields yielded, and the error the iterator stopped on, if any -/
def fieldsE : Nat → List Nat → List (Tag × List Nat) × Option Err
  | 0, _ => ([], some .bufferTooShort)
  | _+1, [] => ([], none)
  | f+1, bs =>
    match fieldStepE bs with
    | .error e => ([], some e)
    | .ok (fld, rest) => let r := fieldsE f rest; (fld :: r.1, r.2)

/-! ## messages -/

/-- the unpacker of a field type applied to a buffer: `<field type>::unpack`, and for a nested
    message `message<M>::unpack` -/
def decTyWith (rec : Msg → List Nat → R (Val × List Nat)) : Ty → List Nat → R (Val × List Nat)
  | .scalar s, bs => decScalar s bs
  | .msg m, bs =>
    match decFrame bs with
    | .error e => .error e
    | .ok (frame, rest) =>
      match rec m frame with
      | .error e => .error e
      | .ok (v, left) => if left.isEmpty then .ok (v, rest) else .error .wrongLength

/-- `merge_field` for plain / `Box`, `Option`, `Vec` -/
def mergeSlot (c : Card) (old new : Val) : Val :=
  match c, old with
  | .one, _ => new
  | .opt, _ => .some new
  | .rep, .list vs => .list (vs ++ [new])
  | .rep, _ => .list [new]

/-- the generated `match (num, wire_type)`: the first field with this number and wire type
    unpacks the slice and merges; `none` = no arm matched -/
def mergeInto (rec : Msg → List Nat → R (Val × List Nat)) :
    List Field → List Val → Tag × List Nat → Option (R (List Val))
  | f :: fs, v :: vs, fld =>
    if f.num = fld.1.num ∧ f.ty.wt = fld.1.wt then
      some (match decTyWith rec f.ty fld.2 with
        | .error e => .error e
        | .ok (x, _) => .ok (mergeSlot f.card v x :: vs))
    else (mergeInto rec fs vs fld).map (fun r => r.map (v :: ·))
  | _, _, _ => none

/-- one iteration of the generated loop; `strict` = inside a named enum variant, where a field
    matching no arm is an error -/
def mergeStep (rec : Msg → List Nat → R (Val × List Nat)) (strict : Bool) (fs : List Field)
    (acc : R (List Val)) (fld : Tag × List Nat) : R (List Val) :=
  match acc with
  | .error e => .error e
  | .ok a =>
    match mergeInto rec fs a fld with
    | some r => r
    | none => if strict then .error .unknownDiscriminant else .ok a

/-- the generated loop over `FieldIterator`, then the iterator's own error -/
def unpackFields (rec : Msg → List Nat → R (Val × List Nat)) (strict : Bool) (fs : List Field)
    (dflts : List Val) (bs : List Nat) : R (List Val) :=
  let r := fieldsE (bs.length + 1) bs
  match r.1.foldl (mergeStep rec strict fs) (.ok dflts) with
  | .error e => .error e
  | .ok vs =>
    match r.2 with
    | some e => .error e
    | none => .ok vs

def dfltSlotWith (rec : Msg → Val) (f : Field) : Val :=
  match f.card, f.ty with
  | .opt, _ => .none
  | .rep, _ => .list []
  | .one, .scalar s => dfltScalar s
  | .one, .msg m => rec m

/-- `Default::default()` -/
def dfltMsg : Nat → Msg → Val
  | 0, _ => .none
  | f+1, .struct fs => .struct (fs.map (dfltSlotWith (dfltMsg f)))
  | _+1, .enum _ d => d
  | _+1, .result _ _ d => d

/-- does the body of a named enum variant reject fields it has no arm for?  (`true` in the
    unrepaired derive macro, D-C15-named; tied to the source in `Blue.ConstsTie`) -/
def namedVariantStrict : Bool := false

/-- first variant whose (number, wire type) arm matches, with its index -/
def findVariant : List Variant → Tag → Nat → Option (Nat × Variant)
  | [], _, _ => none
  | v :: vs, t, i => if v.num = t.num ∧ v.wt = t.wt then some (i, v) else findVariant vs t (i + 1)

/-- `Unpackable::unpack` of a derived message / of `Result`: value and unconsumed rest -/
def unpackMsg : Nat → Msg → List Nat → R (Val × List Nat)
  | 0, _, _ => .error .bufferTooShort
  | f+1, .struct fs, bs =>
    match unpackFields (unpackMsg f) false fs (fs.map (dfltSlotWith (dfltMsg f))) bs with
    | .error e => .error e
    | .ok vs => .ok (.struct vs, [])
  | f+1, .enum vars _, bs =>
    match decTagE bs with
    | .error e => .error e
    | .ok (tag, rest) =>
      match findVariant vars tag 0 with
      | none => .error .unknownDiscriminant
      | some (i, .unit _) =>
        match decFrame rest with
        | .error e => .error e
        | .ok (_, rest') => .ok (.variant i (.struct []), rest')
      | some (i, .tuple _ ty) =>
        match decTyWith (unpackMsg f) ty rest with
        | .error e => .error e
        | .ok (v, rest') => .ok (.variant i v, rest')
      | some (i, .named _ fs) =>
        match decFrame rest with
        | .error e => .error e
        | .ok (frame, rest') =>
          match unpackFields (unpackMsg f) namedVariantStrict fs (fs.map (dfltSlotWith (dfltMsg f))) frame with
          | .error e => .error e
          | .ok vs => .ok (.variant i (.struct vs), rest')
  | f+1, .result okm errm _, bs =>
    match decVarint bs with
    | none => .error .varintOverflow
    | some (t, rest) =>
      if t > U32MAX then .error .tagTooLarge
      else if t = 10 then
        match decFrame rest with
        | .error e => .error e
        | .ok (frame, rest') =>
          match unpackMsg f okm frame with
          | .error e => .error e
          | .ok (v, _) => .ok (.variant 0 v, rest')
      else if t = 18 then
        match decFrame rest with
        | .error e => .error e
        | .ok (frame, rest') =>
          match unpackMsg f errm frame with
          | .error e => .error e
          | .ok (v, _) => .ok (.variant 1 v, rest')
      else .error .unknownDiscriminant

/-- the payload after the tag for one value of a field type -/
def encTyWith (rec : Msg → Val → List Nat) : Ty → Val → List Nat
  | .scalar s, v => encScalar s v
  | .msg m, v => encBytes (rec m v)

/-- `FieldPackHelper::field_pack` for one plain value: tag, payload -/
def packOne (rec : Msg → Val → List Nat) (num : Nat) (ty : Ty) (v : Val) : List Nat :=
  encTag ⟨num, ty.wt⟩ ++ encTyWith rec ty v

/-- `FieldPackHelper` for plain / `Option` / `Vec` -/
def packSlot (rec : Msg → Val → List Nat) (f : Field) (v : Val) : List Nat :=
  match f.card, v with
  | .one, v => packOne rec f.num f.ty v
  | .opt, .some v => packOne rec f.num f.ty v
  | .rep, .list vs => vs.flatMap (packOne rec f.num f.ty)
  | _, _ => []

def packFields (rec : Msg → Val → List Nat) : List Field → List Val → List Nat
  | f :: fs, v :: vs => packSlot rec f v ++ packFields rec fs vs
  | _, _ => []

/-- `Packable::pack` of a derived message / of `Result` -/
def packMsg : Nat → Msg → Val → List Nat
  | 0, _, _ => []
  | f+1, .struct fs, .struct vs => packFields (packMsg f) fs vs
  | f+1, .enum vars _, .variant i p =>
    match vars[i]? with
    | some (.unit n) => encTag ⟨n, .lengthDelimited⟩ ++ encBytes []
    | some (.tuple n ty) => packOne (packMsg f) n ty p
    | some (.named n fs) =>
      match p with
      | .struct vs => encTag ⟨n, .lengthDelimited⟩ ++ encBytes (packFields (packMsg f) fs vs)
      | _ => []
    | none => []
  | f+1, .result okm errm _, .variant i p =>
    if i = 0 then encVarint 10 ++ encBytes (packMsg f okm p)
    else if i = 1 then encVarint 18 ++ encBytes (packMsg f errm p)
    else []
  | _, _, _ => []

/-- `v64::pack_sz`: the shift loop -/
def varintSzAux : Nat → Nat → Nat → Nat
  | 0, _, c => c
  | f+1, x, c => if x / 128 > 0 then varintSzAux f (x / 128) (c + 1) else c

def varintSz (x : Nat) : Nat := varintSzAux 10 x 1

end Blue.ProtoMsg
