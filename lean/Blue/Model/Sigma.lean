import Blue.Model.BitVec
import Blue.Model.Sampled
/-! `scrunch::sigma::Sigma`: the alphabet of a text — the sorted distinct code points
    (`sigma_to_char`), the dense symbol of a code point (`char_to_sigma`: its 1-based position, `0` is
    kept for the end marker), and the cumulative symbol counts as a bit vector (`columns`) from which
    `sa_range_for`, `sa_index_to_sigma`, `sa_index_to_t`, `bucket_starts`, `bucket_limits` are read
    with `rank` / `select`.

    What is abstracted: the two count tables of `construct` (a dense `Vec` for code points up to
    `2^20`, a `HashMap` beyond) and the final `sort_by_key` are one association list kept sorted by
    code point — but the dense table's *length* is tracked, because `dense_counts[idx] += 1` panics
    when the resize before it was too short; likewise the two lookup tables of `unpack` (dense `Vec`
    up to `2^20`, `HashMap`) are "the position in `sigma_to_char`".  `columns` is the decoded bit
    array of the `sparse::BitVector` (branch 16; see `Blue.BvSparse`), with the reference
    `rank` / `select`. -/
namespace Blue.Sigma
open Blue.BitVec

/-- `DENSE_COUNT_LIMIT` -/
def denseLimit : Nat := 2 ^ 20

/-- the branch factor of `columns`: `from_indices(16, …)` in `Sigma::construct` -/
def columnsBranch : Nat := 16

/-- the initial length of `dense_counts` -/
def denseInit : Nat := 256

/-- `usize::next_power_of_two` -/
def nextPow2 (m : Nat) : Nat := if m ≤ 1 then 1 else 2 ^ (Nat.log2 (m - 1) + 1)

/-- add one occurrence of `t` to the counts, kept sorted by code point -/
def bump (t : Nat) : List (Nat × Nat) → List (Nat × Nat)
  | [] => [(t, 1)]
  | (a, c) :: r => if t < a then (t, 1) :: (a, c) :: r else if t = a then (a, c + 1) :: r else (a, c) :: bump t r

structure Counts where
  denseLen : Nat
  counts : List (Nat × Nat)

/-- one iteration of the counting loop; `none` is the index-out-of-bounds panic of
    `dense_counts[idx] += 1` -/
def countStep (st : Option Counts) (t : Nat) : Option Counts :=
  match st with
  | none => none
  | some st =>
    if t ≤ denseLimit then
      let len' := if t ≥ st.denseLen then min (nextPow2 (t + 1)) (denseLimit + 1) else st.denseLen
      if t < len' then some ⟨len', bump t st.counts⟩ else none
    else some ⟨st.denseLen, bump t st.counts⟩

/-- `buckets`: `0`, then the running totals of the counts -/
def bucketsFrom : Nat → List Nat → List Nat
  | acc, [] => [acc]
  | acc, c :: r => acc :: bucketsFrom (acc + c) r

structure Sig where
  sigmaToChar : List Nat
  columns : List Bool

/-- `Sigma::construct(text)` then `Sigma::unpack`: `columns = from_indices(16, total + 1, buckets)` -/
def construct (text : List Nat) : Option Sig :=
  (text.foldl countStep (some ⟨denseInit, []⟩)).map fun st =>
    let b := bucketsFrom 0 (st.counts.map (·.2))
    ⟨st.counts.map (·.1), Blue.Sampled.presentBits (b.getLastD 0 + 1) b⟩

/-- `K()`: the number of symbols including the end marker -/
def K (s : Sig) : Nat := s.sigmaToChar.length + 1

/-- `char_to_sigma(t)` -/
def charToSigma (s : Sig) (t : Nat) : Option Nat :=
  let i := s.sigmaToChar.idxOf t
  if i < s.sigmaToChar.length then some (i + 1) else none

/-- `sigma_to_char(σ)`: `sigma_to_char.get(σ - 1)` (`σ = 0` underflows in the code) -/
def sigmaToChar (s : Sig) (σ : Nat) : Option Nat := if σ = 0 then none else s.sigmaToChar[σ - 1]?

/-- `sa_range_for_sigma(σ)`: `(columns.select(σ), columns.select(σ + 1) - 1)`, `none` = `Err(BadSelect)` -/
def saRangeForSigma (s : Sig) (σ : Nat) : Option (Nat × Nat) :=
  match select s.columns σ, select s.columns (σ + 1) with
  | some a, some b => some (a, b - 1)
  | _, _ => none

/-- `sa_range_for(t)`: `(1, 0)` for a code point that does not occur -/
def saRangeFor (s : Sig) (t : Nat) : Option (Nat × Nat) :=
  match charToSigma s t with
  | some σ => saRangeForSigma s σ
  | none => some (1, 0)

/-- `sa_index_to_sigma(idx)` -/
def saIndexToSigma (s : Sig) (idx : Nat) : Option Nat :=
  if idx < s.columns.length then rank s.columns idx else none

/-- `sa_index_to_t(idx)` -/
def saIndexToT (s : Sig) (idx : Nat) : Option Nat :=
  if 0 < idx ∧ idx < s.columns.length then (rank s.columns idx).bind (fun r => sigmaToChar s r) else none

/-- `bucket_starts` / `bucket_limits`: `select(i)` / `select(i + 1)` for every symbol `i < K` -/
def bucketStarts (s : Sig) : List (Option Nat) := (List.range (K s)).map (fun i => select s.columns i)
def bucketLimits (s : Sig) : List (Option Nat) := (List.range (K s)).map (fun i => select s.columns (i + 1))

/-- `translate_text*`: every code point through `char_to_sigma`, then the end marker `0`;
    `none` = the `LogicError` / `InvalidSigma` exits (never taken for the text the sigma was built from) -/
def translate (s : Sig) (text : List Nat) : Option (List Nat) :=
  (Blue.Sampled.allSome (text.map (charToSigma s))).map (· ++ [0])

/-- a needle symbol as backward search sees it: the dense symbol, or — for a code point that does not
    occur, where the code uses the empty range `(1, 0)` — the first unused dense symbol `K`, whose
    range is empty too -/
def needleSym (s : Sig) (t : Nat) : Nat := (charToSigma s t).getD (K s)

/-! ### the document queries in terms of code points -/

/-- the loop of `PsiDocument::retrieve`: `sigma.sa_index_to_t(idx)` (an `Err(InvalidSigma)` when it
    has no answer), then ψ -/
def walkT (s : Sig) (l : List (List Nat)) : Nat → Nat → Option (List Nat)
  | 0, _ => some []
  | k + 1, idx =>
    match saIndexToT s idx with
    | none => none
    | some c => (walkT s l k (Blue.Csa.psi l idx)).map (c :: ·)

/-- `PsiDocument::retrieve(record)` in code points -/
def retrieveT (s : Sig) (l : List (List Nat)) (si : Blue.Sampled.SArr) (bits : List Bool) (r : Nat) :
    Option (List Nat) :=
  match select bits r with
  | none => none
  | some start =>
    let limit := (select bits (r + 1)).getD bits.length
    if start > limit then none
    else match Blue.Sampled.sisaLookup si start with
      | none => none
      | some idx => walkT s l (limit - start) idx

/-- `backwards_search` with `Sigma::sa_range_for` on code points (`none` = an `Err` from a `select`) -/
def rangeForT (s : Sig) (t : Nat) : Nat × Nat := (saRangeFor s t).getD (1, 0)

end Blue.Sigma
