/-! `skipfree::SkipList::insert` at level 0 as a small-step transition system (one step per atomic
    access).  Node 0 is the head sentinel.  The search through the upper levels is abstracted: an
    insert may start from *any* published node with a smaller key (or the head) — every path the
    real search can take ends at such a node — and from there walks level 0 as the code does. -/
namespace Blue.SkipList

structure Node where
  key : Nat
  next : Option Nat
deriving DecidableEq, Repr

inductive PC where
  | idle
  /-- read `prev.next`; advance while it is before the key (`find_…` / the `'advancing` loop) -/
  | find (k prev : Nat) (node : Option Nat)
  /-- `new_node` -/
  | alloc (k prev : Nat) (obs : Option Nat)
  /-- `set_next(x, 0, obs)` -/
  | setNext (node prev : Nat) (obs : Option Nat)
  /-- `cas_next(prev, 0, obs, x)` -/
  | cas (node prev : Nat) (obs : Option Nat)
deriving DecidableEq, Repr

structure St where
  heap : List Node
  pcs : Nat → PC
  /-- ghost: keys whose level-0 CAS succeeded -/
  inserted : List Nat

def init : St := ⟨[⟨0, none⟩], fun _ => .idle, []⟩

def setPc (pcs : Nat → PC) (i : Nat) (pc : PC) : Nat → PC := fun j => if j = i then pc else pcs j

def keyOf (heap : List Node) (n : Nat) : Nat := (heap[n]?.map (·.key)).getD 0
def nextOf (heap : List Node) (n : Nat) : Option Nat := (heap[n]?).bind (·.next)

def setNextAt (heap : List Node) (n : Nat) (nx : Option Nat) : List Node :=
  match heap[n]? with
  | some nd => heap.set n { nd with next := nx }
  | none => heap

/-- an `insert(k)` begins on thread `i`, its search having arrived at `prev` -/
def call (s : St) (i k prev : Nat) : St := { s with pcs := setPc s.pcs i (.find k prev none) }

def step (s : St) (i : Nat) : St :=
  match s.pcs i with
  | .idle => s
  | .find k prev node =>
    match nextOf s.heap prev with
    | some n =>
      if keyOf s.heap n < k then { s with pcs := setPc s.pcs i (.find k n node) }
      else match node with
        | none => { s with pcs := setPc s.pcs i (.alloc k prev (some n)) }
        | some nd => { s with pcs := setPc s.pcs i (.setNext nd prev (some n)) }
    | none =>
      match node with
      | none => { s with pcs := setPc s.pcs i (.alloc k prev none) }
      | some nd => { s with pcs := setPc s.pcs i (.setNext nd prev none) }
  | .alloc k prev obs =>
    { s with heap := s.heap ++ [⟨k, none⟩], pcs := setPc s.pcs i (.setNext s.heap.length prev obs) }
  | .setNext nd prev obs =>
    { s with heap := setNextAt s.heap nd obs, pcs := setPc s.pcs i (.cas nd prev obs) }
  | .cas nd prev obs =>
    if nextOf s.heap prev = obs then
      { s with heap := setNextAt s.heap prev (some nd), pcs := setPc s.pcs i .idle,
               inserted := keyOf s.heap nd :: s.inserted }
    else { s with pcs := setPc s.pcs i (.find (keyOf s.heap nd) prev (some nd)) }

/-- what the level-0 iterator yields from a pointer (fuel = heap size) -/
def walk (heap : List Node) : Nat → Option Nat → List Nat
  | 0, _ => []
  | _, none => []
  | f+1, some p => match heap[p]? with
    | some nd => nd.key :: walk heap f nd.next
    | none => []

end Blue.SkipList
