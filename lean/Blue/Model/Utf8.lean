/-! Well-formed UTF-8 (Unicode Table 3-7), the acceptance set of `String::from_utf8`.
    Bytes are `Nat`s below 256. -/
namespace Blue.Utf8

def isCont (b : Nat) : Bool := 0x80 ≤ b && b ≤ 0xBF

/-- fuel = number of bytes + 1 -/
def validAux : Nat → List Nat → Bool
  | 0, _ => false
  | _ + 1, [] => true
  | f + 1, b0 :: rest =>
    if b0 < 0x80 then validAux f rest
    else if 0xC2 ≤ b0 ∧ b0 ≤ 0xDF then
      match rest with
      | b1 :: r => isCont b1 && validAux f r
      | _ => false
    else if 0xE0 ≤ b0 ∧ b0 ≤ 0xEF then
      match rest with
      | b1 :: b2 :: r =>
        let lo := if b0 = 0xE0 then 0xA0 else 0x80
        let hi := if b0 = 0xED then 0x9F else 0xBF
        (lo ≤ b1 && b1 ≤ hi) && isCont b2 && validAux f r
      | _ => false
    else if 0xF0 ≤ b0 ∧ b0 ≤ 0xF4 then
      match rest with
      | b1 :: b2 :: b3 :: r =>
        let lo := if b0 = 0xF0 then 0x90 else 0x80
        let hi := if b0 = 0xF4 then 0x8F else 0xBF
        (lo ≤ b1 && b1 ≤ hi) && isCont b2 && isCont b3 && validAux f r
      | _ => false
    else false

def valid (s : List Nat) : Bool := validAux (s.length + 1) s

end Blue.Utf8
