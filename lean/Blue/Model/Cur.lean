import Blue.Model.Cursor
/-! The cursor interface (`sst::Cursor`) as a record of operations, so that the combinators can be
    written once over any child — exactly as the Rust combinators are generic over `C: Cursor`. -/
namespace Blue.Cursor

structure Cur (E : Type) where
  σ : Type
  first : σ → σ
  last : σ → σ
  next : σ → σ
  prev : σ → σ
  seek : (E → Bool) → σ → σ
  /-- `key_value()` -/
  kv : σ → Option E
  /-- no operation so far returned an error -/
  ok : σ → Bool

namespace Cur
variable {E : Type}

def step (C : Cur E) (s : C.σ) : Op E → C.σ
  | .first => C.first s | .last => C.last s | .next => C.next s | .prev => C.prev s
  | .seek p => C.seek p s

def runTo (C : Cur E) (s : C.σ) (ops : List (Op E)) : C.σ := ops.foldl C.step s

/-- what a client can observe of a state: the entry shown, and whether an error was raised,
    after any program -/
def beh (C : Cur E) (s : C.σ) : List (Op E) → Option E × Bool :=
  fun ops => (C.kv (C.runTo s ops), C.ok (C.runTo s ops))

end Cur

/-- the reference cursor as an instance -/
@[reducible] def RefCur (E : Type) : Cur E where
  σ := Ref E
  first := Ref.first
  last := Ref.last
  next := Ref.next
  prev := Ref.prev
  seek := Ref.seek
  kv := Ref.kv
  ok := fun _ => true

end Blue.Cursor
