import Blue.Model.Wire
/-! The block entry messages of sst/src/lib.rs (`KeyValueEntry`, `KeyValuePut`, `KeyValueDel`) as
    the derive macro packs and unpacks them. -/
namespace Blue.EntryCodec
open Blue.Wire

structure Put where
  shared : Nat
  keyFrag : List Nat
  timestamp : Nat
  value : List Nat
deriving DecidableEq, Repr

structure Del where
  shared : Nat
  keyFrag : List Nat
  timestamp : Nat
deriving DecidableEq, Repr

inductive Entry where
  | put (p : Put)
  | del (d : Del)
deriving DecidableEq, Repr

def encPut (p : Put) : List Nat :=
  encTag ⟨1, .varint⟩ ++ encVarint p.shared ++
  encTag ⟨2, .lengthDelimited⟩ ++ encBytes p.keyFrag ++
  encTag ⟨3, .varint⟩ ++ encVarint p.timestamp ++
  encTag ⟨4, .lengthDelimited⟩ ++ encBytes p.value

def encDel (d : Del) : List Nat :=
  encTag ⟨5, .varint⟩ ++ encVarint d.shared ++
  encTag ⟨6, .lengthDelimited⟩ ++ encBytes d.keyFrag ++
  encTag ⟨7, .varint⟩ ++ encVarint d.timestamp

def encEntry : Entry → List Nat
  | .put p => encTag ⟨8, .lengthDelimited⟩ ++ encBytes (encPut p)
  | .del d => encTag ⟨9, .lengthDelimited⟩ ++ encBytes (encDel d)

/-- the generated struct `unpack`: fold `merge_field` over the fields; an error of a field's own
    unpacker returns at once -/
def mergePut (acc : Option Put) (fld : Tag × List Nat) : Option Put :=
  match acc with
  | none => none
  | some p =>
    match fld.1.num, fld.1.wt with
    | 1, .varint => (decVarint fld.2).map (fun r => { p with shared := r.1 })
    | 2, .lengthDelimited => (decBytes fld.2).map (fun r => { p with keyFrag := r.1 })
    | 3, .varint => (decVarint fld.2).map (fun r => { p with timestamp := r.1 })
    | 4, .lengthDelimited => (decBytes fld.2).map (fun r => { p with value := r.1 })
    | _, _ => some p

def decPut (bs : List Nat) : Option Put :=
  let r := fields (bs.length + 1) bs
  match r.1.foldl mergePut (some ⟨0, [], 0, []⟩) with
  | none => none
  | some p => if r.2 then none else some p

def mergeDel (acc : Option Del) (fld : Tag × List Nat) : Option Del :=
  match acc with
  | none => none
  | some p =>
    match fld.1.num, fld.1.wt with
    | 5, .varint => (decVarint fld.2).map (fun r => { p with shared := r.1 })
    | 6, .lengthDelimited => (decBytes fld.2).map (fun r => { p with keyFrag := r.1 })
    | 7, .varint => (decVarint fld.2).map (fun r => { p with timestamp := r.1 })
    | _, _ => some p

def decDel (bs : List Nat) : Option Del :=
  let r := fields (bs.length + 1) bs
  match r.1.foldl mergeDel (some ⟨0, [], 0⟩) with
  | none => none
  | some p => if r.2 then none else some p

/-- the generated enum `unpack`: one tag, one length-prefixed message, the rest is returned -/
def decEntry (bs : List Nat) : Option (Entry × List Nat) :=
  match decTag bs with
  | none => none
  | some (tag, buf) =>
    match tag.num, tag.wt with
    | 8, .lengthDelimited =>
      match decBytes buf with
      | none => none
      | some (body, rest) => (decPut body).map (fun p => (.put p, rest))
    | 9, .lengthDelimited =>
      match decBytes buf with
      | none => none
      | some (body, rest) => (decDel body).map (fun d => (.del d, rest))
    | _, _ => none

end Blue.EntryCodec
