/-! The split-block bloom filter of sst/src/sbbf.rs (`Block`, `Filter`), from the 64-bit hash word on.

    SipHash-2-4 (the external `siphasher` crate, keyed with `KEY`) is NOT modelled: the model's
    input is the `u64` that the public `Filter::defer_insert(item)` returns.  Everything after it
    is here, as the code has it:

    * `SALT`, `Block::mask` (`y = (x as u64 * SALT[i] as u64) as u32`, bit `y >> 27` of word `i`),
      `Block::insert` (word-wise OR with the mask), `Block::check` (word-wise `b & m == m`; the
      code returns at the first word that fails, a pure function: the conjunction),
      `Block::append_to_bytes` / `Block::try_from` (eight little-endian `u32`s, exactly 32 bytes);
    * `Filter::new` (`((size.saturating_add(7) >> 3) >> 5) + 1` zeroed blocks), `do_hashing`
      (`block_idx = ((x >> 32) * nblocks) >> 32` with its `assert!`, `x as u32`),
      `deferred_insert`, `check` on the hash word, `approximate_size`, `to_bytes`,
      `TryFrom<&[u8]>` (empty → error, length not a multiple of 32 → error).

    A block is a `Vector (BitVec 32) 8`: the words are `u32`s by type, `insert` is `|||`.
    Hash words, sizes and bytes are `Nat`s (a hash word is read modulo 2^64, as a `u64`). -/
namespace Blue.Sbbf

/-- `const SALT: [u32; 8]` -/
def SALT : Vector Nat 8 :=
  #v[0x47b6137b, 0x44974d91, 0x8824ad5b, 0xa2b7289d, 0x705495c7, 0x2df1424b, 0x9efc4947, 0x5c6bfb31]

/-- `y >> MASK_SHIFT` selects one of the 32 bits of a word -/
def MASK_SHIFT : Nat := 27
/-- `size_of::<Block>()`: eight `u32`s -/
def BLOCK_BYTES : Nat := 32
/-- `saturating_add(7)`, `>> 3` (bits to bytes, rounded up) and `>> 5` (bytes to blocks) of `Filter::new` -/
def NEW_ROUND_UP : Nat := 7
def NEW_SHIFT_BYTES : Nat := 3
def NEW_SHIFT_BLOCKS : Nat := 5
/-- `+ 1`: "make sure it's never 0" -/
def NEW_EXTRA_BLOCKS : Nat := 1

/-- `x >> 32`, `… >> 32` of `do_hashing` and `as u32` all cut a `u64` at bit 32 -/
def HASH_SHIFT : Nat := 32
def U32 : Nat := 4294967296
def U64 : Nat := 18446744073709551616
/-- bytes per word (`u32::to_le_bytes`) and words per block -/
def WORD_BYTES : Nat := 4
def BLOCK_WORDS : Nat := 8

abbrev Word := BitVec 32
abbrev Block := Vector Word 8

/-! ## Block -/
/-- one word of `Block::mask`: `y = (x as u64 * salt as u64) as u32` (the product of two `u32`s
    does not overflow a `u64`), `1 << (y >> 27)` -/
def maskWord (x salt : Nat) : Word := (1#32) <<< ((x * salt) % U32 / 2 ^ MASK_SHIFT)

/-- `Block::mask(x)` for `x : u32` (each word of the zeroed result is OR-ed with one bit) -/
def mask (x : Nat) : Block := SALT.map (maskWord x)

def Block.zero : Block := Vector.replicate 8 0#32

/-- `Block::insert` -/
def Block.insert (b : Block) (x : Nat) : Block := Vector.zipWith (· ||| ·) b (mask x)

/-- `Block::check` -/
def Block.check (b : Block) (x : Nat) : Bool := (Vector.zipWith (fun a m => a &&& m == m) b (mask x)).all id

/-- `u32::to_le_bytes` -/
def le4 (w : Word) : List Nat :=
  [w.toNat % 256, w.toNat / 256 % 256, w.toNat / 65536 % 256, w.toNat / 16777216 % 256]

/-- `u32::from_le_bytes` of a 4-byte slice -/
def leWord : List Nat → Word
  | [a, b, c, d] => BitVec.ofNat 32 (a % 256 + 256 * (b % 256) + 65536 * (c % 256) + 16777216 * (d % 256))
  | _ => 0#32

/-- `Block::append_to_bytes` -/
def Block.bytes (b : Block) : List Nat := b.toList.flatMap le4

inductive Err where
  /-- "bloom filter must have a non-zero length" -/
  | empty
  /-- "bloom filter must be a multiple of 32 in length" -/
  | notMultiple
  /-- "block must be exactly 32 bytes" (of `Block::try_from`; never reached from `Filter::try_from`) -/
  | blockLen
  deriving DecidableEq, Repr

def Err.code : Err → String
  | .empty => "empty"
  | .notMultiple => "not-multiple-of-32"
  | .blockLen => "block-not-32"

/-- `Block::try_from(&[u8])`: word `i` from bytes `[4 i, 4 i + 4)` -/
def Block.tryFrom (bytes : List Nat) : Except Err Block :=
  if bytes.length ≠ BLOCK_BYTES then .error .blockLen
  else .ok (Vector.ofFn fun (i : Fin 8) => leWord ((bytes.drop (i.val * 4)).take 4))

/-! ## Filter -/
structure Filter where
  blocks : List Block
  deriving DecidableEq, Repr

/-- the number of blocks `Filter::new(size)` allocates: `((size.saturating_add(7) >> 3) >> 5) + 1` -/
def newBlocks (size : Nat) : Nat :=
  (min (size + NEW_ROUND_UP) (U32 - 1)) / 2 ^ NEW_SHIFT_BYTES / 2 ^ NEW_SHIFT_BLOCKS + NEW_EXTRA_BLOCKS

/-- `Filter::new(size)` for `size : u32` -/
def Filter.new (size : Nat) : Filter := ⟨List.replicate (newBlocks size) Block.zero⟩

/-- `Filter::approximate_size` -/
def Filter.approximateSize (f : Filter) : Nat := f.blocks.length * BLOCK_BYTES

/-- `block_idx` of `do_hashing`: `((x >> 32) * nblocks) >> 32` for `x : u64` -/
def blockIdx (nblocks x : Nat) : Nat := (x % U64 / U32 * nblocks) / U32

/-- `do_hashing`: `none` is the `assert!(block_idx < self.blocks.len())` firing -/
def Filter.doHashing (f : Filter) (x : Nat) : Option (Nat × Nat) :=
  let i := blockIdx f.blocks.length x
  if i < f.blocks.length then some (i, x % U32) else none

/-- `blocks[i].insert(w)` -/
def Filter.insertAt (f : Filter) (i w : Nat) : Filter := ⟨f.blocks.modify i (·.insert w)⟩

/-- `Filter::deferred_insert` as the code runs it: `none` = panic (the assertion of `do_hashing`) -/
def Filter.deferredInsert? (f : Filter) (x : Nat) : Option Filter :=
  match f.doHashing x with
  | none => none
  | some (i, w) => some (f.insertAt i w)

/-- `Filter::check` on the hash word as the code runs it: `none` = panic -/
def Filter.check? (f : Filter) (x : Nat) : Option Bool :=
  match f.doHashing x with
  | none => none
  | some (i, w) =>
    match f.blocks[i]? with
    | none => none
    | some b => some (b.check w)

/-- `Filter::deferred_insert` (total form; equal to the code's on every filter with a block:
    `Blue.Sbbf.deferredInsert?_eq`) -/
def Filter.deferredInsert (f : Filter) (x : Nat) : Filter :=
  f.insertAt (blockIdx f.blocks.length x) (x % U32)

/-- `Filter::check` on the hash word (total form: `Blue.Sbbf.check?_eq`) -/
def Filter.check (f : Filter) (x : Nat) : Bool :=
  match f.blocks[blockIdx f.blocks.length x]? with
  | some b => b.check (x % U32)
  | none => false

/-- `Filter::to_bytes` -/
def Filter.toBytes (f : Filter) : List Nat := f.blocks.flatMap Block.bytes

/-- the `?` loop of `Filter::try_from` over the 32-byte slices -/
def parseAll : List (List Nat) → Except Err (List Block)
  | [] => .ok []
  | c :: cs =>
    match Block.tryFrom c with
    | .error e => .error e
    | .ok b =>
      match parseAll cs with
      | .error e => .error e
      | .ok bs => .ok (b :: bs)

/-- the slices `bytes[idx * 32 .. idx * 32 + 32]` for `idx in 0..limit`, the rest of the input
    carried along (one pass over the bytes) -/
def slicesFrom : Nat → List Nat → List (List Nat)
  | 0, _ => []
  | limit + 1, bytes => bytes.take BLOCK_BYTES :: slicesFrom limit (bytes.drop BLOCK_BYTES)

/-- `limit = bytes.len() / 32` -/
def slices (bytes : List Nat) : List (List Nat) := slicesFrom (bytes.length / BLOCK_BYTES) bytes

/-- `impl TryFrom<&[u8]> for Filter` -/
def Filter.tryFrom (bytes : List Nat) : Except Err Filter :=
  if bytes.isEmpty then .error .empty
  else if bytes.length % BLOCK_BYTES ≠ 0 then .error .notMultiple
  else
    match parseAll (slices bytes) with
    | .error e => .error e
    | .ok bs => .ok ⟨bs⟩

/-- what `SstBuilder::seal` stores: `Filter::new(size)`, one `deferred_insert` per word, `to_bytes` -/
def build (size : Nat) (words : List Nat) : Filter := words.foldl Filter.deferredInsert (Filter.new size)

end Blue.Sbbf
