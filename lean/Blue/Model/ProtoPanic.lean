import Blue.Model.ProtoMsg
import Blue.Model.Varint
/-! The message decoder of prototk with an explicit PANIC outcome (property C15, "never panics").

    `Blue.ProtoMsg.unpackMsg` returns `Except Err _`: it cannot panic by its type.  This file writes
    the same decoder again as the Rust code has it, over `Out` = value / error / panic, with every
    operation of the decode path that CAN panic in Rust made explicit:

    * slice indexing `&buf[..k]`, `&buf[k..]`, `&buf[0..k]` (`sliceTo`, `sliceFrom`: panic when
      `k > len`): `FieldIterator::next` (prototk/src/lib.rs:626,635,652,661), the length-delimited
      unpackers `bytes` / `string` / `bytesNN` / `message<M>` (field_types.rs:990,1066,1341,1410-11),
      buffertk's fixed-width unpackers (`&buf[0..SZ]`, `&buf[SZ..]`, lib.rs:364-365),
      `Unpacker::take`'s `split_at` (lib.rs:313) behind `take_length_prefixed` and `Result`;
    * `usize` arithmetic under overflow checks (the harness profile has them on):
      `x.pack_sz() + sz` in `FieldIterator::next` (`addU`) and `v - empty.len()` in
      `message<M>::unpack`'s wrong-length error (`subU`, field_types.rs:1414);
    * `v64::unpack` itself: the two decoders of `Blue.Varint` with their `panic` outcome (`buf[i]`).

    The control flow is the code's, not the model's: the generated loop pulls one field from the
    iterator, merges it, returns a merge error at once (`?`) and the iterator's error after the
    loop (`loopP`), where `unpackFields` collects all fields first.  `Unpacker::advance` saturates and
    `Unpacker::take` checks before `split_at`, so neither adds a panic site of its own; the
    `try_into().unwrap()` of `Result`'s discriminant sits behind the `> u32::MAX` test and is
    rendered as that test.

    `Blue/Proofs/ProtoPanic.lean`: `unpackP_eq_unpack` (on every buffer of bytes shorter than 2^63 —
    Rust's bound on slice lengths — `unpackP` is `unpackMsg`) and `unpackP_never_panics`. -/
namespace Blue.ProtoPanic
open Blue.Wire Blue.ProtoMsg

inductive Out (α : Type) where
  | ok (a : α)
  | err (e : Err)
  | panic

def Out.bind {α β : Type} : Out α → (α → Out β) → Out β
  | .ok a, f => f a
  | .err e, _ => .err e
  | .panic, _ => .panic

instance : Monad Out where
  pure := .ok
  bind := Out.bind

def ofR {α : Type} : R α → Out α
  | .ok a => .ok a
  | .error e => .err e

/-- `usize::MAX + 1` on the 64-bit target -/
def USIZE : Nat := 18446744073709551616

/-- `&buf[..k]` / `&buf[0..k]` -/
def sliceTo (bs : List Nat) (k : Nat) : Out (List Nat) := if k ≤ bs.length then .ok (bs.take k) else .panic
/-- `&buf[k..]` -/
def sliceFrom (bs : List Nat) (k : Nat) : Out (List Nat) := if k ≤ bs.length then .ok (bs.drop k) else .panic
/-- `a - b` on `usize` with overflow checks -/
def subU (a b : Nat) : Out Nat := if b ≤ a then .ok (a - b) else .panic
/-- `a + b` on `usize` with overflow checks -/
def addU (a b : Nat) : Out Nat := if a + b < USIZE then .ok (a + b) else .panic

/-- `<v64 as Unpackable>::unpack`: the code's two decoders (`Blue.Varint.unpack`), panic included -/
def v64P (bs : List Nat) : Out (Nat × List Nat) :=
  match Blue.Varint.unpack bs with
  | .ok v rest => .ok (v, rest)
  | .err _ => .err .varintOverflow
  | .panic => .panic

/-- `Tag::unpack` (`as u32`, `>> 3`, `& 7` do not panic; `FieldNumber::new` / `WireType::new` return
    errors) -/
def tagP (bs : List Nat) : Out (Tag × List Nat) := do
  let (v, rest) ← v64P bs
  if v > U32MAX then .err .tagTooLarge
  else if !validFieldNumber (v / 8) then .err .invalidFieldNumber
  else match WT.ofBits (v % 8) with
    | none => .err .unhandledWireType
    | some wt => .ok (⟨v / 8, wt⟩, rest)

/-- the length-delimited prefix: `let v = up.unpack()?; let rem = up.remain(); if rem.len() < v
    { return Err(..) }; (&rem[..v], &rem[v..])` -/
def frameP (bs : List Nat) : Out (List Nat × List Nat) := do
  let (n, rem) ← v64P bs
  if rem.length < n then .err .bufferTooShort
  else do
    let a ← sliceTo rem n
    let b ← sliceFrom rem n
    .ok (a, b)

/-- buffertk's fixed-width unpack: `if buf.len() >= SZ { (&buf[0..SZ], &buf[SZ..]) } else Err` -/
def fixedP (k : Nat) (bs : List Nat) : Out (Nat × List Nat) :=
  if bs.length < k then .err .bufferTooShort
  else do
    let a ← sliceTo bs k
    let b ← sliceFrom bs k
    .ok (Blue.Proto.fromLe a, b)

/-- `Unpackable for <field type>` -/
def decScalarP (s : Scalar) (bs : List Nat) : Out (Val × List Nat) :=
  match s with
  | .int32 => do
    let (x, rest) ← v64P bs
    if inI32 (i64OfU64 x) then .ok (.int (i64OfU64 x), rest) else .err .signedOverflow
  | .int64 => do
    let (x, rest) ← v64P bs
    .ok (.int (i64OfU64 x), rest)
  | .uint32 => do
    let (x, rest) ← v64P bs
    if x < P32 then .ok (.int x, rest) else .err .unsignedOverflow
  | .uint64 => do
    let (x, rest) ← v64P bs
    .ok (.int x, rest)
  | .sint32 => do
    let (x, rest) ← v64P bs
    if inI32 (unzigzag x) then .ok (.int (unzigzag x), rest) else .err .signedOverflow
  | .sint64 => do
    let (x, rest) ← v64P bs
    .ok (.int (unzigzag x), rest)
  | .bool => do
    let (x, rest) ← v64P bs
    .ok (.int (if x = 0 then 0 else 1), rest)
  | .fixed32 | .float => do
    let (x, rest) ← fixedP 4 bs
    .ok (.int x, rest)
  | .sfixed32 => do
    let (x, rest) ← fixedP 4 bs
    .ok (.int (i32OfU32 x), rest)
  | .fixed64 | .double => do
    let (x, rest) ← fixedP 8 bs
    .ok (.int x, rest)
  | .sfixed64 => do
    let (x, rest) ← fixedP 8 bs
    .ok (.int (i64OfU64 x), rest)
  | .bytes => do
    let (b, rest) ← frameP bs
    .ok (.bytes b, rest)
  | .bytesN n => do
    let (b, rest) ← frameP bs
    if b.length < n then .err .bufferTooShort
    else if b.length ≠ n then .err .wrongLength
    else do
      -- `ret[..N].copy_from_slice(&rem[..N])`
      let c ← sliceTo b n
      .ok (.bytes c, rest)
  | .string => do
    let (b, rest) ← frameP bs
    if validUtf8 b then .ok (.bytes b, rest) else .err .stringEncoding

/-- `FieldIterator::next` after the emptiness test -/
def fieldStepP (bs : List Nat) : Out ((Tag × List Nat) × List Nat) := do
  let (tag, buf) ← tagP bs
  match tag.wt with
  | .varint => do
    let (x, rest) ← v64P buf
    let sl ← sliceTo buf (encVarint x).length          -- `&buf[0..x.pack_sz()]`
    .ok ((tag, sl), rest)
  | .sixtyFour =>
    if buf.length < 8 then .err .bufferTooShort
    else do
      let sl ← sliceTo buf 8
      .ok ((tag, sl), buf.drop 8)                        -- `advance(8)` saturates
  | .lengthDelimited => do
    let (x, rest) ← v64P buf
    if rest.length < x then .err .bufferTooShort
    else do
      let k ← addU (encVarint x).length x                -- `x.pack_sz() + sz`
      let sl ← sliceTo buf k
      .ok ((tag, sl), rest.drop x)                       -- `advance(sz)`
  | .thirtyTwo =>
    if buf.length < 4 then .err .bufferTooShort
    else do
      let sl ← sliceTo buf 4
      .ok ((tag, sl), buf.drop 4)

/-- `<field type>::unpack`, `message<M>::unpack` with its `wrong_length(v - empty.len(), v)` -/
def decTyWithP (recP : Msg → List Nat → Out (Val × List Nat)) : Ty → List Nat → Out (Val × List Nat)
  | .scalar s, bs => decScalarP s bs
  | .msg m, bs => do
    let (frame, rest) ← frameP bs
    let (v, left) ← recP m frame
    if left.isEmpty then .ok (v, rest)
    else do
      let _ ← subU frame.length left.length
      .err .wrongLength

/-- the generated `match (num, wire_type)` -/
def mergeIntoP (recP : Msg → List Nat → Out (Val × List Nat)) :
    List Field → List Val → Tag × List Nat → Option (Out (List Val))
  | f :: fs, v :: vs, fld =>
    if f.num = fld.1.num ∧ f.ty.wt = fld.1.wt then
      some (do
        let (x, _) ← decTyWithP recP f.ty fld.2
        .ok (mergeSlot f.card v x :: vs))
    else (mergeIntoP recP fs vs fld).map (fun r => do
      let a ← r
      .ok (v :: a))
  | _, _, _ => none

/-- the generated loop as it runs: `for (tag, buf) in fields { match … { arm => unpack(buf)?, … } }
    if let Some(e) = error { return Err(e) }` — one field pulled, merged, a merge error returned at
    once, the iterator's error after the loop -/
def loopP (recP : Msg → List Nat → Out (Val × List Nat)) (strict : Bool) (fs : List Field) :
    Nat → List Nat → List Val → Out (List Val)
  | 0, _, _ => .err .bufferTooShort
  | _+1, [], acc => .ok acc
  | n+1, bs, acc =>
    match fieldStepP bs with
    | .panic => .panic
    | .err e => .err e
    | .ok (fld, rest) =>
      match mergeIntoP recP fs acc fld with
      | none => if strict then .err .unknownDiscriminant else loopP recP strict fs n rest acc
      | some .panic => .panic
      | some (.err e) => .err e
      | some (.ok a) => loopP recP strict fs n rest a

def unpackFieldsP (recP : Msg → List Nat → Out (Val × List Nat)) (strict : Bool) (fs : List Field)
    (dflts : List Val) (bs : List Nat) : Out (List Val) :=
  loopP recP strict fs (bs.length + 1) bs dflts

/-- `Unpackable::unpack` of a derived message / of `Result`, with the panic outcome -/
def unpackP : Nat → Msg → List Nat → Out (Val × List Nat)
  | 0, _, _ => .err .bufferTooShort
  | f+1, .struct fs, bs => do
    let vs ← unpackFieldsP (unpackP f) false fs (fs.map (dfltSlotWith (dfltMsg f))) bs
    .ok (.struct vs, [])
  | f+1, .enum vars _, bs => do
    let (tag, rest) ← tagP bs
    match findVariant vars tag 0 with
    | none => .err .unknownDiscriminant
    | some (i, .unit _) => do
      let (_, rest') ← frameP rest
      .ok (.variant i (.struct []), rest')
    | some (i, .tuple _ ty) => do
      let (v, rest') ← decTyWithP (unpackP f) ty rest
      .ok (.variant i v, rest')
    | some (i, .named _ fs) => do
      let (frame, rest') ← frameP rest
      let vs ← unpackFieldsP (unpackP f) namedVariantStrict fs (fs.map (dfltSlotWith (dfltMsg f))) frame
      .ok (.variant i (.struct vs), rest')
  | f+1, .result okm errm _, bs => do
    let (t, rest) ← v64P bs
    if t > U32MAX then .err .tagTooLarge
    else if t = 10 then do
      let (frame, rest') ← frameP rest
      let (v, _) ← unpackP f okm frame
      .ok (.variant 0 v, rest')
    else if t = 18 then do
      let (frame, rest') ← frameP rest
      let (v, _) ← unpackP f errm frame
      .ok (.variant 1 v, rest')
    else .err .unknownDiscriminant

end Blue.ProtoPanic
