import Blue.Model.KvsConc
/-! `Blue.KvsConc` with a tree that holds real tables (lsmtk/src/kvs/mod.rs `load` / `range_scan`,
    lsmtk/src/tree/mod.rs install).  A wrapper state machine: the writer / reader / flush steps are
    those of `Blue.KvsConc.step`, unchanged; next to them the tree part keeps

    * `files`: every table file ever written, `(id, version list)`.  A file is written once and
      never changed (ids are handed out from `nextFile`); a file that leaves the current version
      stays in this list: a reader that holds an older version still reads it (that the bytes stay
      readable while a reader holds the version is C07 / C08).
    * `cur`: the file ids of the installed version.
    * `held` / `snaps`: what `base.trees` / `base.readers` are for table numbers, for file ids: the
      version a reader cloned in `rTree` and the snapshot `(timestamp, mem, imm, version)` it holds
      after `rSnap`.

    and two events install versions whose tables hold OTHER contents:

    * `tCompact vid ins outs`: the files `ins` of the current version are replaced by new files
      with the version lists `outs`; conserving: `outs` hold exactly the versions of `ins`.
    * `tGc vid ins outs`: the same with a collector between the merge and the builder
      (`perform_garbage_collection`); the obligations are those of `Blue.StoreHistGc.GcCompactionOk`
      in the flat form this model needs: outputs ⊆ inputs (`hsub`), for every key the newest input
      version is among the outputs or is a tombstone and the newest the outputs hold of the key is a
      tombstone (`hnewest` = `NewestKept`), and every file that stays and shares a key with an
      input holds only newer versions of it (`hlast` + `Closed`: nothing below).

    The flush's install (`fInstall`) writes the file of the immutable memtable: its version list is
    what the table holds at that moment (complete: `flushed_table_complete`).

    Answers are the newest version over the union of what the snapshot holds, as in
    `Blue.KvsConc.lookup`; that the first hit in search order is that version is
    `first_hit_eq_newest` for mem / imm and C01 (`Blue.Spec.step_compaction_reads`: closed
    compactions keep "newer above") for the files of a version — search order inside the tree is
    not modelled here.  A batch naming one key twice is outside the model (D-16: `SkipList::insert`
    asserts): `wBegin` is enabled for batches with pairwise distinct keys only. -/
namespace Blue.KvsConcTree
open Blue.KvsWrite (Entry)
open Blue.KvsConc (St Ev)

/-- the snapshot a reader holds: timestamp, memtables (mem, imm) by number, files of the version -/
structure TSnap where
  ts : Nat
  mems : List Nat
  files : List Nat
deriving DecidableEq, Repr

structure TSt where
  base : St
  files : List (Nat × List Entry)
  nextFile : Nat
  cur : List Nat
  held : List (Nat × List Nat)
  snaps : List (Nat × TSnap)
deriving DecidableEq, Repr

def tinit (completed : Bool) (seqNo memId : Nat) : TSt :=
  ⟨Blue.KvsConc.init completed seqNo memId, [], 0, [], [], []⟩

inductive TEv where
  | base (e : Ev)
  | tCompact (vid : Nat) (ins : List Nat) (outs : List (List Entry))
  | tGc (vid : Nat) (ins : List Nat) (outs : List (List Entry))
deriving DecidableEq, Repr

/-- the version list of file `id` -/
def fileOf (files : List (Nat × List Entry)) (id : Nat) : List Entry :=
  ((files.find? (fun p => p.1 = id)).map (·.2)).getD []

/-- all versions of the files `ids` -/
def entsOf (files : List (Nat × List Entry)) (ids : List Nat) : List Entry :=
  (ids.map (fileOf files)).flatten

/-- what table `tbl` holds now -/
def tableEnts (s : St) (tbl : Nat) : List Entry :=
  (s.ents.filter (fun te => te.1 = tbl)).map (·.2)

/-- new files for the version lists `outs`, ids from `n` -/
def mkFiles (n : Nat) : List (List Entry) → List (Nat × List Entry)
  | [] => []
  | o :: os => (n, o) :: mkFiles (n + 1) os

/-- `N` is a newest version of its key in `E` -/
def newestIn (E : List Entry) (N : Entry) : Bool :=
  E.all (fun e => !(e.key == N.key) || decide (e.seq ≤ N.seq))

/-- conserving: the outputs hold exactly the versions of the inputs -/
def conserving (insE outsE : List Entry) : Bool :=
  outsE.all (fun e => insE.contains e) && insE.all (fun e => outsE.contains e)

/-- `GcCompactionOk.hsub` + `hnewest` (`NewestKept`) -/
def gcOk (insE outsE : List Entry) : Bool :=
  outsE.all (fun e => insE.contains e) &&
  insE.all (fun N => !(newestIn insE N) || (outsE.contains N ||
    (N.val == none && outsE.all (fun o => !(o.key == N.key) || (!(newestIn outsE o) || o.val == none)))))

/-- nothing below (`hlast` + `Closed`): a file that stays and shares a key with an input holds only
    newer versions of that key -/
def nothingBelow (restE insE : List Entry) : Bool :=
  restE.all (fun x => insE.all (fun d => !(x.key == d.key) || decide (d.seq < x.seq)))

/-- install: the inputs leave the current version, the outputs (fresh files) enter it -/
def install (t : TSt) (b : St) (ins : List Nat) (outs : List (List Entry)) : TSt :=
  { t with base := b, files := t.files ++ mkFiles t.nextFile outs, nextFile := t.nextFile + outs.length,
           cur := (mkFiles t.nextFile outs).map (·.1) ++ t.cur.filter (fun f => !(ins.contains f)) }

def tstep (t : TSt) : TEv → Option TSt
  | .base e =>
    match Blue.KvsConc.step t.base e with
    | none => none
    | some b =>
      match e with
      | .wBegin _ _ batch =>
        if (batch.map (·.1)).Nodup then some { t with base := b } else none
      | .fInstall oldMem _ =>
        some { t with base := b, files := t.files ++ [(t.nextFile, tableEnts t.base oldMem)],
                      nextFile := t.nextFile + 1, cur := t.nextFile :: t.cur }
      | .rTree rid _ =>
        some { t with base := b, held := (rid, t.cur) :: t.held.filter (fun p => p.1 ≠ rid) }
      | .rSnap rid ts _ _ =>
        match t.held.find? (fun p => p.1 = rid) with
        | some p =>
          some { t with base := b,
                        snaps := (rid, ⟨ts, t.base.memId :: t.base.imm.toList, p.2⟩) :: t.snaps,
                        held := t.held.filter (fun p => p.1 ≠ rid) }
        | none => none
      | _ => some { t with base := b }
  | .tCompact vid ins outs =>
    match Blue.KvsConc.step t.base (.tInstall vid) with
    | none => none
    | some b =>
      if ins.all (fun f => t.cur.contains f) ∧ ins ≠ [] ∧
          conserving (entsOf t.files ins) outs.flatten = true then
        some (install t b ins outs)
      else none
  | .tGc vid ins outs =>
    match Blue.KvsConc.step t.base (.tInstall vid) with
    | none => none
    | some b =>
      if ins.all (fun f => t.cur.contains f) ∧ ins ≠ [] ∧
          gcOk (entsOf t.files ins) outs.flatten = true ∧
          nothingBelow (entsOf t.files (t.cur.filter (fun f => !(ins.contains f)))) (entsOf t.files ins) = true then
        some (install t b ins outs)
      else none

def trun (t : TSt) : List TEv → Option TSt
  | [] => some t
  | e :: es =>
    match tstep t e with
    | some t' => trun t' es
    | none => none

/-- what a snapshot sees: the entries of its memtables (searched at the moment of the lookup) and of
    the files of its version, not newer than its timestamp -/
def tview (t : TSt) (sn : TSnap) : List Entry :=
  Blue.KvsConc.view t.base ⟨sn.ts, sn.mems, true⟩ ++ (entsOf t.files sn.files).filter (fun e => decide (e.seq ≤ sn.ts))

/-- newest version of `k` in a list of visible versions -/
def look (V : List Entry) (k : Nat) : Option Entry :=
  Blue.KvsConc.newest (V.filter (fun e => e.key = k))

/-- `load(key)`: the newest visible version (a tombstone has `val = none`) -/
def tlookup (t : TSt) (sn : TSnap) (k : Nat) : Option Entry := look (tview t sn) k

/-- the value the caller gets -/
def tvalue (t : TSt) (sn : TSnap) (k : Nat) : Option Nat := (tlookup t sn k).bind (·.val)

/-- what a scan over the keys `keys` shows: the keys with a live value, in that order -/
def tscan (t : TSt) (sn : TSnap) (keys : List Nat) : List (Nat × Nat) :=
  keys.filterMap (fun k => (tvalue t sn k).map (fun v => (k, v)))

/-- the snapshot a reader that takes everything NOW (tree version inside the critical section, as
    `load` / `range_scan` do) holds -/
def snapNow (t : TSt) : TSnap :=
  ⟨Blue.KvsConc.readTs t.base, t.base.memId :: t.base.imm.toList, t.cur⟩

end Blue.KvsConcTree
