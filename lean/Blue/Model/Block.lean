import Blue.Model.EntryCodec
/-! `BlockBuilder` and the forward decode of a block's entry area (sst/src/block.rs). -/
namespace Blue.Block
open Blue.Wire Blue.EntryCodec

structure KV where
  key : List Nat
  ts : Nat
  val : Option (List Nat)
deriving DecidableEq, Repr

structure Opts where
  bytesRestartInterval : Nat
  pairsRestartInterval : Nat

structure Builder where
  buffer : List Nat
  lastKey : List Nat
  restarts : List Nat
  bytesSinceRestart : Nat
  pairsSinceRestart : Nat

def Builder.init : Builder := ⟨[], [], [0], 0, 0⟩

/-- length of the common prefix (the `while shared < max_shared && …` loop) -/
def sharedLen : List Nat → List Nat → Nat
  | a :: as, b :: bs => if a = b then sharedLen as bs + 1 else 0
  | _, _ => 0

def wireEntry (shared : Nat) (e : KV) : Entry :=
  match e.val with
  | some v => .put ⟨shared, e.key.drop shared, e.ts, v⟩
  | none => .del ⟨shared, e.key.drop shared, e.ts⟩

/-- `compute_key_frag` + `append` (the size and order checks are in `Builder.put`) -/
def Builder.add (o : Opts) (b : Builder) (e : KV) : Builder :=
  let restart := decide (o.bytesRestartInterval ≤ b.bytesSinceRestart)
               || decide (o.pairsRestartInterval ≤ b.pairsSinceRestart)
  let shared := if restart then 0 else sharedLen b.lastKey e.key
  let bytes := encEntry (wireEntry shared e)
  { buffer := b.buffer ++ bytes
    lastKey := b.lastKey.take shared ++ e.key.drop shared
    restarts := if restart then b.restarts ++ [b.buffer.length] else b.restarts
    bytesSinceRestart := (if restart then 0 else b.bytesSinceRestart) + bytes.length
    pairsSinceRestart := (if restart then 0 else b.pairsSinceRestart) + 1 }

def build (o : Opts) (es : List KV) : Builder := es.foldl (Builder.add o) Builder.init

/-- `extract_key` applied from offset 0 to the restarts boundary -/
def decodeAll : Nat → List Nat → List Nat → Option (List KV)
  | 0, _, _ => none
  | _+1, [], _ => some []
  | f+1, bs, prev =>
    match decEntry bs with
    | none => none
    | some (.put p, rest) =>
      let key := prev.take p.shared ++ p.keyFrag
      (decodeAll f rest key).map (fun l => ⟨key, p.timestamp, some p.value⟩ :: l)
    | some (.del d, rest) =>
      let key := prev.take d.shared ++ d.keyFrag
      (decodeAll f rest key).map (fun l => ⟨key, d.timestamp, none⟩ :: l)

end Blue.Block
