import Blue.Model.BitArr
/-! The word level of `scrunch::bit_vector::rrr` (shared by `cf_rrr`): 63-bit words cut out of the
    bit pattern (`SixtyThreeBitWords`), the binomial tables `K` / `L`, `encode` (word → offset within
    its popcount class), `decode`, and `u63::select_word` / `select1` / `select0`.

    Words are `Nat`s below `2^63` (`u63`); `u64` arithmetic is not bounded here (every intermediate
    value of the code is below `2^64` on words below `2^63`: the binomials are at most `C(63,31)`). -/
namespace Blue.Rrr
open Blue.BitArr

/-- `u64::count_ones` -/
def popN : Nat → Nat → Nat
  | 0, _ => 0
  | n + 1, w => w % 2 + popN n (w / 2)

def popcount (w : Nat) : Nat := popN 64 w

/-- `w & (1 << i) != 0` -/
def bitAt (w i : Nat) : Bool := w / 2 ^ i % 2 == 1

/-- `(w & ((1 << i) - 1)).count_ones()` -/
def lowPop (w i : Nat) : Nat := popcount (w % 2 ^ i)

/-- `SixtyThreeBitWords`: consecutive chunks of 63 bits, bit `i` of the chunk is bit `i` of the word;
    the last chunk may be short (its missing high bits are zero) -/
def wordsAux : Nat → List Bool → List Nat
  | 0, _ => []
  | f + 1, bits => if bits.isEmpty then [] else ofBits (bits.take 63) :: wordsAux f (bits.drop 63)

def wordsOf (bits : List Bool) : List Nat := wordsAux bits.length bits

/-! ### the tables -/

def nextRow (r : List Nat) : List Nat := List.zipWith (· + ·) (0 :: r) (r ++ [0])

def rowsAux : Nat → List Nat → List (List Nat)
  | 0, _ => []
  | n + 1, r => r :: rowsAux n (nextRow r)

/-- `K`: rows `0..=63` of Pascal's triangle (tied to the literal table of rrr.rs by
    `ConstsTieC19.scrunch_rrr_K`) -/
def kTab : List (List Nat) := rowsAux 64 [1]

/-- `K.get(n)?.get(k)?` -/
def kGet (n k : Nat) : Option Nat := (kTab[n]?).bind (fun r => r[k]?)

/-- `K[n][k]` (the indexing form `encode` uses; it would panic out of range) -/
def kAt (n k : Nat) : Nat := (kGet n k).getD 0

/-- `L[c]`: the width in bits of an offset of class `c` (tied to rrr.rs by `ConstsTieC19.scrunch_rrr_L`) -/
def lTab : List Nat :=
  [0, 6, 11, 16, 20, 23, 27, 30, 33, 35, 38, 40, 42, 44, 46, 48, 49, 51, 52, 53, 55, 56, 57, 58,
   58, 59, 60, 60, 60, 61, 61, 61, 61, 61, 61, 61, 60, 60, 60, 59, 58, 58, 57, 56, 55, 53, 52, 51,
   49, 48, 46, 44, 42, 40, 38, 35, 33, 30, 27, 23, 20, 16, 11, 0]

/-- `L.get(c)` -/
def lGet (c : Nat) : Option Nat := lTab[c]?

/-! ### encode / decode -/

/-- the loop of `encode`: positions `n-1` down to `0` remain, `r` set bits remain, `o` accumulated.
    (`for bit in 0..63` tests position `63 - bit - 1` and adds `K[63 - bit][bits_remain]`.) -/
def encLoop (w : Nat) : Nat → Nat → Nat → Nat
  | 0, _, o => o
  | n + 1, r, o => if bitAt w n then encLoop w n (r - 1) (o + kAt (n + 1) r) else encLoop w n r o

/-- `encode(word) = (offset, class)` -/
def encode (w : Nat) : Nat × Nat :=
  let c := popcount w
  if c = 0 ∨ c = 63 then (0, c) else (encLoop w 63 c 0 - c, c)

/-- the loop of `decode`: positions `n-1 .. 0` remain.  (`c -= 1` on `c = 0` would underflow in the
    code; it cannot happen on offsets produced by `encode`.) -/
def decLoop : Nat → Nat → Nat → Nat → Option Nat
  | 0, _, _, word => some word
  | n + 1, o, c, word =>
    match kGet (n + 1) c with
    | none => none
    | some skip => if o ≥ skip then decLoop n (o - skip) (c - 1) (word + 2 ^ n) else decLoop n o c word

/-- `decode(o, c)` -/
def decode (o c : Nat) : Option Nat :=
  if c = 0 then some 0
  else if c = 63 then some (2 ^ 63 - 1)
  else decLoop 63 (o + c) c 0

/-! ### select within a word -/

/-- one halving step of `select_word` on `(word, x, idx)` -/
def selStep (s : Nat × Nat × Nat) (shift : Nat) : Nat × Nat × Nat :=
  let lo := s.1 % 2 ^ shift
  let cnt := popcount lo
  if s.2.1 > cnt then (s.1 / 2 ^ shift, s.2.1 - cnt, s.2.2 + shift) else (lo, s.2.1, s.2.2)

/-- `u63::select_word(word, x)`: `0` for `x = 0`, otherwise one past the position of the `x`-th set
    bit, `None` if there are fewer -/
def selectWord (word x : Nat) : Option Nat :=
  if x = 0 then some 0
  else if popcount word < x then none
  else some (([32, 16, 8, 4, 2, 1].foldl selStep (word, x, 0)).2.2 + 1)

def select1 (w x : Nat) : Option Nat := selectWord w x

/-- `select_word(!w & MASK, x)` -/
def select0 (w x : Nat) : Option Nat := selectWord (2 ^ 63 - 1 - w) x

end Blue.Rrr
