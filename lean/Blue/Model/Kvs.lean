import Blue.Proofs.LevelSlice
import Blue.Proofs.Compaction
/-! Executable model of `KeyValueStore::load` over a dumped store state (memtable, immutable
    memtable, level 0 as the version holds it, levels 1…), with keys as ranks in byte order.
    `invB` is the decidable form of I1 ∧ I2 that the driver evaluates on every dumped state. -/
namespace Blue.Kvs
open Blue.Spec

structure KFile where
  first : Nat
  last : Nat
  bts : Nat
  vers : List (Ver Nat)

structure KState where
  mem : List (Ver Nat)
  imm : Option (List (Ver Nat))
  l0 : List KFile
  levels : List (List KFile)

def toT (f : KFile) : TFile := ⟨f.first, f.last, f.vers⟩

/-- `level0.sort_by_key(|md| md.biggest_timestamp)` (stable) searched in reverse -/
def l0Order (l0 : List KFile) : List KFile := (l0.mergeSort (fun a b => decide (a.bts ≤ b.bts))).reverse

def memComps (s : KState) : List (List (Ver Nat)) :=
  s.mem :: (match s.imm with | some i => [i] | none => [])

def l0Comps (s : KState) : List (List (Ver Nat)) := (l0Order s.l0).map (·.vers)
def tLevels (s : KState) : List (List TFile) := s.levels.map (·.map toT)

/-- `KeyValueStore::load`: memtable, immutable memtable, then `Version::load` -/
def kvsLoad (s : KState) (k t : Nat) : Option (Ver Nat) :=
  match load (memComps s) k t with
  | some e => some e
  | none => treeLoad (l0Comps s) (tLevels s) k t

/-- every component in search order, deeper levels in full -/
def allComps (s : KState) : List (List (Ver Nat)) :=
  memComps s ++ (l0Comps s ++ (tLevels s).flatMap (fun l => l.map (·.vers)))

def newerB (c d : List (Ver Nat)) : Bool :=
  c.all fun a => d.all fun b => !(a.1 == b.1) || decide (b.2 < a.2)

def newerAboveB : List (List (Ver Nat)) → Bool
  | [] => true
  | c :: cs => cs.all (newerB c) && newerAboveB cs

def wfB (f : TFile) : Bool :=
  decide (f.first ≤ f.last) && f.vers.all fun v => decide (f.first ≤ v.1) && decide (v.1 ≤ f.last)

def sortedB : List TFile → Bool
  | [] => true
  | a :: t => t.all (fun b => decide (a.last ≤ b.first)) && sortedB t

/-- I1 ∧ I2 on a dumped state -/
def invB (s : KState) : Bool :=
  newerAboveB (allComps s) && (tLevels s).all (fun l => sortedB l && l.all wfB)

end Blue.Kvs

namespace Blue.Kvs
open Blue.Spec

/-- decidable form of `Closed` (no kept component lies below an input it shares a key with) -/
def sharesKeyB (c d : List (Ver Nat)) : Bool := c.any fun a => d.any fun b => a.1 == b.1

def closedB : Tagged Nat → Bool
  | [] => true
  | x :: t => t.all (fun y => !(x.1 && !y.1 && sharesKeyB x.2 y.2)) && closedB t

end Blue.Kvs
