/-! `KeyValueStore::write` / `load` as a small-step system (lsmtk/src/kvs/mod.rs): a sequence number
    is assigned under the state lock, the batch's entries are inserted into the memtable one at a
    time outside it, writers return in sequence order; a reader uses the latest *assigned* sequence
    number as its timestamp. -/
namespace Blue.KvsWrite

structure Entry where
  key : Nat
  seq : Nat
  val : Option Nat
deriving DecidableEq, Repr

structure Writer where
  seq : Nat
  /-- entries still to be inserted -/
  todo : List (Nat × Option Nat)
  finished : Bool
  /-- ghost: the whole batch -/
  batch : List (Nat × Option Nat)
deriving DecidableEq, Repr

structure St where
  seqNo : Nat
  mem : List Entry
  writers : List Writer
deriving DecidableEq, Repr

def init : St := ⟨0, [], []⟩

inductive Ev where
  /-- `write(batch)`: take the lock, assign the sequence number -/
  | begin (batch : List (Nat × Option Nat))
  /-- the writer with this sequence number inserts its next entry into the skiplist -/
  | insertOne (seq : Nat)
  /-- … returns to its caller (only when every earlier writer has) -/
  | finish (seq : Nat)
deriving DecidableEq, Repr

def updWriter (ws : List Writer) (seq : Nat) (f : Writer → Writer) : List Writer :=
  ws.map (fun w => if w.seq = seq then f w else w)

def step (s : St) : Ev → St
  | .begin batch => { s with seqNo := s.seqNo + 1, writers := s.writers ++ [⟨s.seqNo + 1, batch, false, batch⟩] }
  | .insertOne seq =>
    match s.writers.find? (fun w => w.seq = seq) with
    | some w =>
      match w.todo with
      | (k, v) :: rest =>
        { s with mem := ⟨k, seq, v⟩ :: s.mem, writers := updWriter s.writers seq (fun w => { w with todo := rest }) }
      | [] => s
    | none => s
  | .finish seq =>
    match s.writers.find? (fun w => w.seq = seq) with
    | some w =>
      if w.todo = [] ∧ (s.writers.all (fun w' => decide (w'.seq ≥ seq) || w'.finished)) then
        { s with writers := updWriter s.writers seq (fun w => { w with finished := true }) }
      else s
    | none => s

/-- `load(key)`: timestamp = the latest assigned sequence number; newest entry not newer than it -/
def load (s : St) (key : Nat) : Option Entry :=
  (s.mem.filter (fun e => e.key = key ∧ e.seq ≤ s.seqNo)).foldl
    (fun best e => match best with
      | none => some e
      | some b => if b.seq < e.seq then some e else some b) none

def run (evs : List Ev) : St := evs.foldl step init

end Blue.KvsWrite
