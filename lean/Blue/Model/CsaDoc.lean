import Blue.Model.BitVec
import Blue.Model.Csa
/-! The `Document` surface of `scrunch::PsiDocument` on top of the `Csa` and `BitVec` models:
    `check_record_boundaries`, the record-boundary bit vector, `Sigma::sa_range_for`,
    `records` / `lookup` / `offset_of` / `retrieve`, and `search` (backward search, then one
    suffix-array lookup per rank of the range, sorted).

    Conventions kept from the code: the text `T` is the translated text *with* the end marker,
    i.e. symbols `≥ 1` followed by one `0`; `l` is the list of its non-empty suffixes in
    suffix-array order; `n = T.length - 1` is `Document::len`. -/
namespace Blue.CsaDoc
open Blue.Csa Blue.BitVec

/-- the text as the code translates it (`translate_text*`): the alphabet translation keeps the
    order of the code points and maps them above the end marker — modelled as a shift by one —
    and the end marker `0` is appended -/
def withMarker (text : List Nat) : List Nat := text.map (· + 1) ++ [0]

def increasing : List Nat → Bool
  | a :: b :: t => decide (a < b) && increasing (b :: t)
  | _ => true

/-- `check_record_boundaries(text, record_boundaries)`: non-empty, strictly increasing, starts at
    0, last boundary inside the text.  (So the empty text and empty records are rejected — by both
    `ReferenceDocument::construct` and `PsiDocument::construct`.) -/
def admissible (n : Nat) (rb : List Nat) : Bool :=
  !rb.isEmpty && increasing rb && (rb.head? == some 0) && decide (rb.getLastD 0 < n)

/-- the sparse bit vector `PsiDocument::construct` builds: length `n`, a one at `b - 1` for every
    boundary `b` but the first -/
def boundaryBits (n : Nat) (rb : List Nat) : List Bool :=
  (List.range n).map (fun i => rb.tail.contains (i + 1))

/-- `records()`: `rank(len).unwrap_or(0) + 1` -/
def records (bits : List Bool) : Nat := (rank bits bits.length).getD 0 + 1

/-- `lookup(offset)`: `rank(offset)`, an error past the end -/
def lookup (bits : List Bool) (off : Nat) : Option Nat := rank bits off

/-- `offset_of(record)`: `select(record)` -/
def offsetOf (bits : List Bool) (r : Nat) : Option Nat := select bits r

/-- `Sigma::sa_range_for(c)`: the closed block of ranks whose suffix starts with `c`; `(1, 0)` for a
    symbol that does not occur.  As in the code (`columns.select(σ)` over cumulative symbol counts)
    the block starts after all suffixes with a smaller first symbol — the end marker's included. -/
def sigmaRange (l : List (List Nat)) (c : Nat) : Nat × Nat :=
  let lo := l.countP (fun s => decide (s.headD 0 < c))
  let cnt := l.countP (fun s => s.headD 0 == c)
  if cnt = 0 then (1, 0) else (lo, lo + cnt - 1)

/-- `isa[pos]`: the rank of the suffix that starts at text position `pos` (it is the one of length
    `l.length - pos`) -/
def isa (l : List (List Nat)) (pos : Nat) : Nat := l.findIdx (fun s => s.length + pos == l.length)

/-- the loop of `retrieve`: emit the first symbol of the current suffix, follow ψ -/
def walk (l : List (List Nat)) : Nat → Nat → List Nat
  | 0, _ => []
  | k + 1, idx => (str l idx).headD 0 :: walk l k (psi l idx)

/-- `retrieve(record)` -/
def retrieve (l : List (List Nat)) (bits : List Bool) (r : Nat) : Option (List Nat) :=
  match select bits r with
  | none => none
  | some start =>
    let limit := (select bits (r + 1)).getD bits.length
    if start > limit then none else some (walk l (limit - start) (isa l start))

def insertNat (x : Nat) : List Nat → List Nat
  | [] => [x]
  | y :: ys => if x ≤ y then x :: y :: ys else y :: insertNat x ys

/-- `search(needle)`: the text positions `sa[i]` of the ranks returned by backward search, sorted -/
def search (l : List (List Nat)) (needle : List Nat) : List Nat :=
  let r := backwardSearch l (sigmaRange l) needle
  ((List.range (r.2 - r.1)).map (fun d => saOf l l.length (r.1 + d))).foldr insertNat []

/-- `count(needle)` -/
def count (l : List (List Nat)) (needle : List Nat) : Nat := Blue.Csa.count l (sigmaRange l) needle

end Blue.CsaDoc
