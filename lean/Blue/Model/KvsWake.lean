/-! Who wakes whom in the wait list of `KeyValueStore` (lsmtk/src/kvs/mod.rs): a writer (and the
    flush thread, which goes through the same list) links itself under the store mutex, works
    outside it, and comes back for its last critical section: `while !is_head { naked_wait }`,
    then `drop(wait_guard); wait_list.notify_head()`.  `naked_wait` gives the store mutex up
    atomically with going to sleep on the waiter's own condition variable, and every step below is
    one critical section of that mutex, so a notification is never lost between a check and a
    wait; it is lost when nobody issues it.

    * `link` — a thread takes its place at the tail (thread `ts.length`)
    * `arrive i` — thread `i` (awake) runs its last critical section: as head it unlinks and
      notifies the new head (which wakes if it sleeps); otherwise it goes to sleep
    * `drop i` — the store AS FOUND: a write that fails returns early with `?`; its guard is dropped
      wherever the ticket stands, nobody is notified.  (The repaired store sends a failed write
      through `arrive` like every other: runs of it have no `drop` event.)
    * `spur i` — `Condvar::wait` may return unprompted: a sleeper re-checks -/
namespace Blue.KvsWake

inductive TS where
  | awake
  | asleep
  | gone
deriving DecidableEq, Repr

structure St where
  /-- the linked threads, oldest first -/
  queue : List Nat
  ts : List TS
deriving DecidableEq, Repr

def init : St := ⟨[], []⟩

inductive Ev where
  | link
  | arrive (i : Nat)
  | drop (i : Nat)
  | spur (i : Nat)
deriving DecidableEq, Repr

/-- `notify_head`: signal the condition variable of the head's waiter -/
def notifyHead (q : List Nat) (ts : List TS) : List TS :=
  match q.head? with
  | some h => if ts[h]? = some .asleep then ts.set h .awake else ts
  | none => ts

/-- one step; `none` = not enabled -/
def step (s : St) : Ev → Option St
  | .link => some ⟨s.queue ++ [s.ts.length], s.ts ++ [.awake]⟩
  | .arrive i =>
    if s.ts[i]? = some .awake ∧ i ∈ s.queue then
      if s.queue.head? = some i then
        some ⟨s.queue.tail, notifyHead s.queue.tail (s.ts.set i .gone)⟩
      else some ⟨s.queue, s.ts.set i .asleep⟩
    else none
  | .drop i =>
    if s.ts[i]? = some .awake ∧ i ∈ s.queue then some ⟨s.queue.erase i, s.ts.set i .gone⟩ else none
  | .spur i =>
    if s.ts[i]? = some .asleep then some ⟨s.queue, s.ts.set i .awake⟩ else none

def run (s : St) : List Ev → Option St
  | [] => some s
  | e :: es =>
    match step s e with
    | some s' => run s' es
    | none => none

/-- an event of the repaired store -/
def Ev.inTurn : Ev → Bool
  | .drop _ => false
  | _ => true

/-- the head of the list sleeps: only it can leave, and nobody is going to wake it -/
def headAsleep (s : St) : Bool :=
  match s.queue.head? with
  | some h => s.ts[h]? == some .asleep
  | none => false

def sleepers (s : St) : Nat := (s.ts.filter (· == .asleep)).length

end Blue.KvsWake
