import Blue.Model.Cur
import Blue.Model.Concat
/-! Concatenating cursor (sst/src/concat_cursor.rs), generic in the child cursor, with the repairs
    of D-2 and D-18.  A child's last entry is probed through the cursor interface
    (`seek_to_last(); prev(); key()`), as the code does. -/
namespace Blue.Cursor

structure ConcatC {E : Type} (C : Cur E) where
  cs : List C.σ
  position : Nat

namespace ConcatC
variable {E : Type} (C : Cur E)

def modifyAt (cs : List C.σ) (i : Nat) (f : C.σ → C.σ) : List C.σ :=
  match cs[i]? with
  | some c => cs.set i (f c)
  | none => cs

def reposition (m : ConcatC C) (idx : Nat) : ConcatC C :=
  if m.position ≠ idx then ⟨modifyAt C m.cs m.position C.first, idx⟩ else m

def kv (m : ConcatC C) : Option E := match m.cs[m.position]? with | some c => C.kv c | none => none

def seekToFirst (m : ConcatC C) : ConcatC C :=
  let m := reposition C m 0
  ⟨modifyAt C m.cs m.position C.first, m.position⟩

def seekToLast (m : ConcatC C) : ConcatC C :=
  let m := reposition C m (m.cs.length - 1)
  ⟨modifyAt C m.cs m.position C.last, m.position⟩

def nextLoop : Nat → ConcatC C → ConcatC C
  | 0, m => m
  | f+1, m =>
    let m1 : ConcatC C := ⟨modifyAt C m.cs m.position C.next, m.position⟩
    if (kv C m1).isNone && m1.position + 1 < m1.cs.length then
      let m2 := reposition C m1 (m1.position + 1)
      nextLoop f ⟨modifyAt C m2.cs m2.position C.first, m2.position⟩
    else m1

def next (m : ConcatC C) : ConcatC C := nextLoop C (m.cs.length + 1) m

def prevLoop : Nat → ConcatC C → ConcatC C
  | 0, m => m
  | f+1, m =>
    let m1 : ConcatC C := ⟨modifyAt C m.cs m.position C.prev, m.position⟩
    if (kv C m1).isNone && 0 < m1.position then
      let m2 := reposition C m1 (m1.position - 1)
      prevLoop f ⟨modifyAt C m2.cs m2.position C.last, m2.position⟩
    else m1

def prev (m : ConcatC C) : ConcatC C := prevLoop C (m.cs.length + 1) m

/-- `seek_to_last(); prev(); key()` on a child -/
def peekLast (c : C.σ) : Option E := C.kv (C.prev (C.last c))

def probeDown (cs : List C.σ) (left : Nat) : Nat → Option (Nat × E)
  | probe =>
    match cs[probe]? with
    | none => none
    | some c =>
      match peekLast C c with
      | some e => some (probe, e)
      | none => if left < probe then probeDown cs left (probe - 1) else none
termination_by probe => probe
decreasing_by omega

def searchLoop (cs : List C.σ) (pred : E → Bool) : Nat → Nat → Nat → Nat
  | 0, left, _ => left
  | f+1, left, right =>
    if left < right then
      let mid := (left + right) / 2
      match probeDown C cs left mid with
      | some (j, e) => if pred e then searchLoop cs pred f left j else searchLoop cs pred f (mid + 1) right
      | none => searchLoop cs pred f (mid + 1) right
    else left

def seek (pred : E → Bool) (m : ConcatC C) : ConcatC C :=
  let target := searchLoop C m.cs pred (m.cs.length + 1) 0 (m.cs.length - 1)
  let m := reposition C m target
  ⟨modifyAt C m.cs m.position (C.seek pred), m.position⟩

def new (cs : List C.σ) : ConcatC C := ⟨modifyAt C cs 0 C.first, 0⟩

def cur : Cur E where
  σ := ConcatC C
  first := seekToFirst C
  last := seekToLast C
  next := next C
  prev := prev C
  seek := seek C
  kv := kv C
  ok := fun m => m.cs.all C.ok

end ConcatC
end Blue.Cursor
