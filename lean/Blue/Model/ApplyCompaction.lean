import Blue.Model.NextCompaction
/-! `Version::apply_compaction_inner`, `Version::ingest` and the moving compaction of
    `Tree::apply_moving_compaction` (lsmtk/src/tree/mod.rs) as FUNCTIONS on the tree the selector
    model `Blue.NextCompaction` runs on (per level the files in the order the version holds them).

    What the code does (and the obvious model would not):
    * the levels `lower_level .. upper_level` (upper level EXCLUDED — "Intentionally do not include
      upper level") lose their inputs by id: `ssts.retain(|x| !inputs.contains(setsum))`;
    * the upper (output) level is NOT filtered by id.  It is cut by *position*:
      `ssts[..lower_bound(first_key)] ++ outputs ++ ssts[upper_bound(last_key)..]` with the
      `partition_point`s of the compaction's own key range.  Whatever file lies between the two
      partition points is dropped whether or not it is an input, and an input of the upper level
      outside them would stay.  (`Blue.Proofs.ApplyCompaction.spliceUpper_drops_inputs`: for every
      compaction the selector returns the dropped files are exactly the inputs of that level.)
    * the outputs are appended in the order given: no sort, no `partition_point` per output;
    * `upper_bound - lower_bound` is a `usize` subtraction (capacity computation): it underflows
      (panic with overflow checks) when the partition points cross; the model takes and drops
      independently, and the proofs show `lower_bound ≤ upper_bound` on the trees in question;
    * `lower_level < upper_level` always (`may_choose_compaction` rejects equal levels), so level 0
      is never the output level: it only ever loses inputs, and gains files by `ingest`
      (`levels[0].ssts.push`: at the END of the vector; the search order of level 0 is by
      `biggest_timestamp`, `Version::load`);
    * a moving compaction (`perform_compaction`: ANY compaction with exactly one input, not only
      the ones `find_trivial_move` found) is `apply_compaction(compaction, vec![meta])` with the
      metadata of the input file itself: the same function with the input as the one output. -/
namespace Blue.NextCompaction

/-- `ssts.retain(|x| !compaction.inputs.contains(&x.setsum))` -/
def dropInputs (ids : List Nat) (l : List File) : List File := l.filter (fun x => !ids.contains x.id)

/-- the new upper level: `ssts[..lower_bound] ++ outputs ++ ssts[upper_bound..]` -/
def spliceUpper (lvl : List File) (first last : Nat) (outs : List File) : List File :=
  lvl.take (lowerBound lvl first) ++ outs ++ lvl.drop (upperBound lvl last)

/-- what `apply_compaction_inner` does to level `i` -/
def applyLevel (c : Core) (outs : List File) (i : Nat) (l : List File) : List File :=
  if c.lower ≤ i ∧ i < c.upper then dropInputs c.inputs l
  else if i = c.upper then spliceUpper l c.first c.last outs
  else l

/-- `Version::apply_compaction_inner(compaction, outputs)` (an `upper_level` past the last level is
    an index panic in the code; here nothing happens at it) -/
def applyCompaction (t : Tree) (c : Core) (outs : List File) : Tree := t.mapIdx (applyLevel c outs)

/-- `Tree::apply_moving_compaction`: `apply_compaction(compaction, vec![metadata of the input])` -/
def applyTrivialMove (t : Tree) (c : Core) (f : File) : Tree := applyCompaction t c [f]

/-- `Version::ingest`: `levels[0].ssts.push(to_add)` (no level 0: an index panic in the code) -/
def ingest : Tree → File → Tree
  | [], _ => []
  | l0 :: rest, f => (l0 ++ [f]) :: rest

/-- a version with `k` empty levels -/
def emptyTree (k : Nat) : Tree := List.replicate k []

end Blue.NextCompaction
