import Blue.Model.Cursor
/-! Pruning cursor (sst/src/pruning_cursor.rs) over a reference child cursor. -/
namespace Blue.Cursor

/-- What the pruning cursor looks at in an entry. -/
structure PruneCfg (E K : Type) where
  key : E → K
  /-- `timestamp <= self.timestamp` -/
  tsOk : E → Bool
  /-- `value().is_none()` -/
  tomb : E → Bool

structure Pruning (E K : Type) where
  c : Ref E
  skip : Option K

namespace Pruning
variable {E K : Type} [DecidableEq K] (cfg : PruneCfg E K) (n : Nat)

/-- The common loop of `seek` and `next`: examine the current entry, else advance. -/
def scanFwd : Nat → Ref E → Option K → Ref E × Option K
  | 0, c, s => (c, s)
  | f+1, c, s =>
    match c.kv with
    | none => (c, s)
    | some e =>
      if cfg.tsOk e && cfg.tomb e then scanFwd f c.next (some (cfg.key e))
      else if cfg.tsOk e && (s != some (cfg.key e)) then (c, some (cfg.key e))
      else scanFwd f c.next s

def seekToFirst (p : Pruning E K) : Pruning E K := ⟨p.c.first, none⟩
def seekToLast (p : Pruning E K) : Pruning E K := ⟨p.c.last, none⟩

def seek (pred : E → Bool) (p : Pruning E K) : Pruning E K :=
  let r := scanFwd cfg n (p.c.seek pred) none
  ⟨r.1, r.2⟩

def next (p : Pruning E K) : Pruning E K :=
  let r := scanFwd cfg n p.c.next p.skip
  ⟨r.1, r.2⟩

/-- `while self.skip_key.is_some() { … }` of `prev`: step back over the skipped key's entries.
    The flag is true when the cursor ran off the front (the Rust code returns from `prev` there). -/
def skipBack : Nat → Ref E → Option K → Ref E × Bool
  | 0, c, _ => (c, false)
  | f+1, c, s =>
    match s with
    | none => (c, false)
    | some k =>
      match c.kv with
      | none => (c, true)
      | some e => if cfg.key e ≠ k then (c, false) else skipBack f c.prev (some k)

/-- `loop { prev; break if none / ts too new / other key }` -/
def backToRunStart : Nat → Ref E → K → Ref E
  | 0, c, _ => c
  | f+1, c, target =>
    let c' := c.prev
    match c'.kv with
    | none => c'
    | some e => if !cfg.tsOk e || cfg.key e ≠ target then c' else backToRunStart f c' target

/-- `while let Some(kr) = key() { if ts ok && key == target break else next }` -/
def fwdToCand : Nat → Ref E → K → Ref E
  | 0, c, _ => c
  | f+1, c, target =>
    match c.kv with
    | none => c
    | some e => if cfg.tsOk e && cfg.key e = target then c else fwdToCand f c.next target

/-- the outer `loop` of `prev`; `none` models the `logic_error_prev_not_positioned` exit -/
def prevLoop : Nat → Ref E → Option K → Option (Pruning E K)
  | 0, c, s => some ⟨c, s⟩
  | f+1, c, s =>
    let c1 := c.prev
    match skipBack cfg n c1 s with
    | (c2, true) => some ⟨c2, none⟩   -- ran off the front: skip cleared, return
    | (c2, false) =>
      match c2.kv with
      | none => some ⟨c2, none⟩
      | some e =>
        if !cfg.tsOk e then prevLoop f c2 (some (cfg.key e))
        else
          let target := cfg.key e
          let c3 := backToRunStart cfg n c2 target
          let c4 := if c3.kv.isNone then c3.next else c3
          let c5 := fwdToCand cfg n c4 target
          match c5.kv with
          | none => none
          | some e5 =>
            if !cfg.tomb e5 then some ⟨c5, some (cfg.key e5)⟩
            else prevLoop f c5 (some (cfg.key e5))

def prev (p : Pruning E K) : Option (Pruning E K) :=
  let s := if p.c.kv.isNone then none else p.skip
  prevLoop cfg n n p.c s

def kv (p : Pruning E K) : Option E := p.c.kv

def new (c : Ref E) : Pruning E K := ⟨c.first, none⟩

end Pruning
end Blue.Cursor
