/-! `LsmTree::{install_version, explicit_ref, explicit_unref}`, `VersionRef` and the move of
    unreferenced SSTs to `trash/` (lsmtk/src/tree/mod.rs), as a transition system.
    A version is its list of file names; `holders` counts the `Arc`s to it. -/
namespace Blue.FileRefs

structure Ver (F : Type) where
  files : List F
  /-- `Arc::strong_count` -/
  holders : Nat
  /-- `explicit_ref` was applied and `explicit_unref` has not yet taken effect -/
  counted : Bool

structure St (F : Type) where
  /-- all versions ever installed, the current one last -/
  versions : List (Ver F)
  /-- `ReferenceCounter<Setsum>` -/
  refs : F → Nat
  /-- names present in `sst/` -/
  sst : List F
  trash : List F

variable {F : Type} [DecidableEq F]

def incAll (refs : F → Nat) (fs : List F) : F → Nat := fun f => refs f + fs.count f

/-- `explicit_unref` of version `i` when its last holder lets go: decrement each file's count; a
    count that reaches zero moves the file to `trash/` -/
def unrefFiles (s : St F) (fs : List F) : St F :=
  fs.foldl (fun s f =>
    let c := s.refs f - 1
    let refs := fun g => if g = f then c else s.refs g
    if c = 0 then { s with refs := refs, sst := s.sst.filter (· ≠ f), trash := f :: s.trash }
    else { s with refs := refs }) s

inductive Ev (F : Type) where
  /-- `install_version(new)`: files of `new` are already linked into `sst/` -/
  | install (files : List F)
  /-- `take_snapshot`: one more `Arc` to the current version -/
  | snapshot
  /-- a `VersionRef` to version `i` is dropped -/
  | release (i : Nat)

def setAt (l : List (Ver F)) (i : Nat) (f : Ver F → Ver F) : List (Ver F) :=
  match l[i]? with
  | some v => l.set i (f v)
  | none => l

def step (s : St F) : Ev F → St F
  | .install files =>
    -- ref the new version, swap, unref the old one if nobody else holds it
    let s1 : St F := { s with refs := incAll s.refs files, sst := s.sst ++ files.filter (fun f => !s.sst.contains f) }
    let cur := s.versions.length - 1
    let s2 : St F := { s1 with versions := s1.versions ++ [⟨files, 1, true⟩] }
    match s.versions[cur]? with
    | some old =>
      -- the tree's own `Arc` to the old version goes away
      if old.holders = 1 then
        unrefFiles { s2 with versions := setAt s2.versions cur (fun v => { v with holders := 0, counted := false }) } old.files
      else { s2 with versions := setAt s2.versions cur (fun v => { v with holders := v.holders - 1 }) }
    | none => s2
  | .snapshot =>
    let cur := s.versions.length - 1
    { s with versions := setAt s.versions cur (fun v => { v with holders := v.holders + 1 }) }
  | .release i =>
    match s.versions[i]? with
    | some v =>
      if i + 1 = s.versions.length then
        -- the current version always keeps the tree's own reference
        if v.holders > 1 then { s with versions := setAt s.versions i (fun v => { v with holders := v.holders - 1 }) } else s
      else if v.holders = 1 ∧ v.counted then
        unrefFiles { s with versions := setAt s.versions i (fun v => { v with holders := 0, counted := false }) } v.files
      else if v.holders > 1 then
        { s with versions := setAt s.versions i (fun v => { v with holders := v.holders - 1 }) }
      else s
    | none => s

end Blue.FileRefs
