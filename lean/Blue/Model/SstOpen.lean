import Blue.Model.SstBuild
import Blue.Model.ProtoMsg
/-! Opening and reading an SST from *arbitrary bytes* (property C09), the way `sst/src/lib.rs` does:

    * `Sst::from_file_handle`: the eight-byte trailer (`final_block_offset`, fixed little endian),
      the `FinalBlock` message read from that offset to the end of the file (derive-macro unpack:
      unknown fields skipped, later fields override earlier ones, a missing field keeps its default),
      `BlockMetadata::sanity_check` on both triples, the two ordering checks, the index block
      (`load_block`), the index entries (`load_index_entries`), the filter block (`load_filter_block`);
    * `Sst::load_block`: `start < limit`, `read_exact_at` (an error past the end of the file), the
      `SstEntry` frame, **the CRC of the frame's payload against the recorded one**, `Block::new`;
    * `SstCursor::{next, prev, seek}`, `Sst::load`, `Sst::metadata` with data blocks loaded lazily,
      so that an error shows at the call that first touches a damaged block and the entries
      delivered before it are kept.

    The CRC function is a parameter.  The bloom filter block is opaque bytes (its CRC and its length
    are checked; `Filter::check` is taken to answer "maybe" for the keys asked about, which holds for
    every key of the file when the filter block is the one the builder wrote).

    Domain note.  Entries of a block are decoded eagerly (`Blk.toDBlock`, as in C10); the code
    decodes them lazily under its cursor.  The two agree on every block a builder wrote.  A payload
    that matches its recorded CRC but is not a builder's block is answered `hostile-block`: the
    model is total but does not claim to predict the cursor there (it cannot arise from damage short
    of a CRC collision, `Blue.Proofs.SstOpen`). -/
namespace Blue.SstOpen
open Blue.Wire Blue.Block Blue.Sst Blue.Cursor Blue.ProtoMsg

/-! ## error codes (`CODE_*` of sst/src/lib.rs) -/
inductive Err where
  | fileTooSmall | finalOffsetTooLarge | unpackFinalBlock | startGteLimit | indexPastFilter
  | filterPastFinal | systemError | unpackTableEntry | crcFailure | filterAsPlain | finalAsPlain
  | plainAsFilter | finalAsFilter | badFilterBlock | blockTooSmall | metaNullValue
  | unpackBlockMetadata | hostileBlock
deriving DecidableEq, Repr

def Err.code : Err → String
  | .fileTooSmall => "corruption-file-too-small"
  | .finalOffsetTooLarge => "corruption-final-block-offset-too-large"
  | .unpackFinalBlock => "unpack-final-block"
  | .startGteLimit => "corruption-block-metadata-start-gte-limit"
  | .indexPastFilter => "corruption-index-block-runs-past-filter-block"
  | .filterPastFinal => "corruption-filter-block-runs-past-final-block"
  | .systemError => "system-error"
  | .unpackTableEntry => "unpack-table-entry"
  | .crcFailure => "crc32c-failure"
  | .filterAsPlain => "corruption-tried-loading-filter-block-as-plain"
  | .finalAsPlain => "corruption-tried-loading-final-block-as-plain"
  | .plainAsFilter => "corruption-tried-loading-plain-block-as-filter"
  | .finalAsFilter => "corruption-tried-loading-final-block-as-filter"
  | .badFilterBlock => "corruption-bad-filter-block"
  | .blockTooSmall => "block-too-small"
  | .metaNullValue => "corruption-meta-block-null-value"
  | .unpackBlockMetadata => "unpack-block-metadata"
  | .hostileBlock => "hostile-block"

/-- the codes the model names, in constructor order (tied to the source by `Blue.ConstsTie`) -/
def Err.all : List Err :=
  [.fileTooSmall, .finalOffsetTooLarge, .unpackFinalBlock, .startGteLimit, .indexPastFilter,
   .filterPastFinal, .systemError, .unpackTableEntry, .crcFailure, .filterAsPlain, .finalAsPlain,
   .plainAsFilter, .finalAsFilter, .badFilterBlock, .blockTooSmall, .metaNullValue,
   .unpackBlockMetadata]

/-! ## the messages of the file, as schemas of the derive-macro interpreter (`Blue.ProtoMsg`) -/
def blockMetaFields : List Field :=
  [.mk BM_START .one (.scalar .uint64), .mk BM_LIMIT .one (.scalar .uint64), .mk BM_CRC .one (.scalar .fixed32)]

def blockMetaMsg : Msg := .struct blockMetaFields

def finalFields : List Field :=
  [.mk FB_INDEX .one (.msg blockMetaMsg), .mk FB_FILTER .one (.msg blockMetaMsg),
   .mk FB_SETSUM .one (.scalar (.bytesN 32)), .mk FB_SMALLEST .one (.scalar .uint64),
   .mk FB_BIGGEST .one (.scalar .uint64), .mk FB_OFFSET .one (.scalar .fixed64)]

def finalMsg : Msg := .struct finalFields

/-- `SstEntry`: variant 0 = `PlainBlock`, 1 = `FilterBlock`, 2 = `FinalBlock` -/
def sstEntryMsg : Msg :=
  .enum [.tuple SE_PLAIN (.scalar .bytes), .tuple SE_FILTER (.scalar .bytes), .tuple SE_FINAL (.scalar .bytes)]
    (.variant 0 (.bytes []))

def metaOfVal : Val → Option BlockMeta
  | .struct [.int s, .int l, .int c] => some ⟨s.toNat, l.toNat, c.toNat⟩
  | _ => none

/-- what `from_file_handle` keeps of the final block -/
structure Fin where
  index : BlockMeta
  filter : BlockMeta
  setsum : List Nat
  smallest : Nat
  biggest : Nat
deriving DecidableEq, Repr

def finOfVal : Val → Option Fin
  | .struct [im, fm, .bytes s, .int sm, .int bg, .int _] =>
    match metaOfVal im, metaOfVal fm with
    | some i, some f => some ⟨i, f, s, sm.toNat, bg.toNat⟩
    | _, _ => none
  | _ => none

/-- `FinalBlock::unpack` on the bytes from the final block offset to the end of the file -/
def decFinal (bs : List Nat) : Option Fin :=
  match unpackMsg 4 finalMsg bs with
  | .error _ => none
  | .ok (v, _) => finOfVal v

/-- `BlockMetadata::unpack` on an index entry's value -/
def decMeta (bs : List Nat) : Option BlockMeta :=
  match unpackMsg 2 blockMetaMsg bs with
  | .error _ => none
  | .ok (v, _) => metaOfVal v

def unle64 (bs : List Nat) : Nat := (bs.take 8).foldr (fun b acc => b + 256 * acc) 0

/-- `read_exact_at(buf[..len], start)`: fails when the file ends before `start + len` -/
def fileSlice (file : List Nat) (start len : Nat) : Option (List Nat) :=
  if start + len ≤ file.length then some ((file.drop start).take len) else none

/-- the common part of `load_block` / `load_filter_block` before the checksum is looked at: sanity
    check, read, `SstEntry` frame.  Returns the variant of the frame and its payload. -/
def frameAt (file : List Nat) (m : BlockMeta) : Except Err (Nat × List Nat) :=
  if m.start ≥ m.limit then .error .startGteLimit
  else
    match fileSlice file m.start (m.limit - m.start) with
    | none => .error .systemError
    | some buf =>
      match unpackMsg 2 sstEntryMsg buf with
      | .ok (.variant i (.bytes body), _) => .ok (i, body)
      | _ => .error .unpackTableEntry

variable (crc : List Nat → Nat)

/-- … and the checksum of the payload against the recorded one -/
def readFrame (file : List Nat) (m : BlockMeta) : Except Err (Nat × List Nat) :=
  match frameAt file m with
  | .error e => .error e
  | .ok (i, body) => if crc body ≠ m.crc then .error .crcFailure else .ok (i, body)

/-- `Block::new` and the entries a cursor delivers from the block -/
def decodePlain (body : List Nat) : Except Err (List KV) :=
  match Blk.new body with
  | .tooSmall | .underflow => .error .blockTooSmall
  | .ok b =>
    match b.toDBlock with
    | some d => .ok d.entries
    | none => .error .hostileBlock

/-- `Sst::load_block` -/
def loadBlock (file : List Nat) (m : BlockMeta) : Except Err (List KV) :=
  match readFrame crc file m with
  | .error e => .error e
  | .ok (i, body) =>
    if i = 0 then decodePlain body else if i = 1 then .error .filterAsPlain else .error .finalAsPlain

/-- `Sst::load_filter_block` up to `Filter::try_from` (non-empty, a multiple of 32 bytes) -/
def loadFilter (file : List Nat) (m : BlockMeta) : Except Err Unit :=
  match readFrame crc file m with
  | .error e => .error e
  | .ok (i, body) =>
    if i = 1 then (if body.length = 0 ∨ body.length % 32 ≠ 0 then .error .badFilterBlock else .ok ())
    else if i = 0 then .error .plainAsFilter else .error .finalAsFilter

/-- `load_index_entries`: every entry of the index block must carry a `BlockMetadata` value -/
def indexEntries : List KV → Except Err (List (List Nat × BlockMeta))
  | [] => .ok []
  | e :: es =>
    match e.val with
    | none => .error .metaNullValue
    | some v =>
      match decMeta v with
      | none => .error .unpackBlockMetadata
      | some m =>
        match indexEntries es with
        | .error x => .error x
        | .ok r => .ok ((e.key, m) :: r)

/-- an opened table: the file, the final block's fields, the decoded index entries -/
structure Opened where
  file : List Nat
  fin : Fin
  entries : List (List Nat × BlockMeta)
  fileSize : Nat

/-- the sanity and ordering checks on the final block's two triples, in the code's order;
    `none` = passed -/
def finChecks (fin : Fin) (fbo : Nat) : Option Err :=
  if fin.index.start ≥ fin.index.limit then some .startGteLimit
  else if fin.filter.start ≥ fin.filter.limit then some .startGteLimit
  else if fin.index.limit > fin.filter.start then some .indexPastFilter
  else if fin.filter.limit > fbo then some .filterPastFinal
  else none

/-- `Sst::new` / `from_file_handle` -/
def openSst (file : List Nat) : Except Err Opened :=
  let n := file.length
  if n < 8 then .error .fileTooSmall
  else
    let fbo := unle64 (file.drop (n - 8))
    if n < fbo then .error .finalOffsetTooLarge
    else
      match decFinal (file.drop fbo) with
      | none => .error .unpackFinalBlock
      | some fin =>
        match finChecks fin fbo with
        | some e => .error e
        | none =>
          match loadBlock crc file fin.index with
          | .error e => .error e
          | .ok ies =>
            match indexEntries ies with
            | .error e => .error e
            | .ok entries =>
              match loadFilter crc file fin.filter with
              | .error e => .error e
              | .ok () => .ok ⟨file, fin, entries, n⟩

/-! ## the cursor, with lazily loaded data blocks -/
structure LCur where
  metaIdx : Nat
  bc : Option (Ref KV)

def LCur.kv (c : LCur) : Option KV := c.bc.bind Ref.kv

/-- `load_block_cursor(idx)` -/
def Opened.loadIdx (t : Opened) (i : Nat) : Except Err (List KV) :=
  match t.entries[i]? with
  | some (_, m) => loadBlock crc t.file m
  | none => .error .hostileBlock

def Opened.toFirst (_t : Opened) : LCur := ⟨0, none⟩
def Opened.toLast (t : Opened) : LCur := ⟨t.entries.length, none⟩

/-! The cursor is written over the number of index entries `n` and a block loader `ld`, so that the
    same definitions serve the table (`ld = t.loadIdx`) and a caller that caches loaded blocks. -/
section generic
variable (n : Nat) (ld : Nat → Except Err (List KV))

/-- `SstCursor::next` -/
def nextG : Nat → LCur → Except Err LCur
  | 0, c => .ok c
  | f + 1, c =>
    match c.bc with
    | none =>
      if c.metaIdx ≥ n then .ok ⟨n, none⟩
      else
        match ld c.metaIdx with
        | .error e => .error e
        | .ok es =>
          let b := (Ref.mk es 0).next
          if b.kv.isSome then .ok ⟨c.metaIdx, some b⟩ else nextG f ⟨c.metaIdx + 1, none⟩
    | some b =>
      let b' := b.next
      if b'.kv.isSome then .ok ⟨c.metaIdx, some b'⟩ else nextG f ⟨c.metaIdx + 1, none⟩

/-- `SstCursor::prev` -/
def prevG : Nat → LCur → Except Err LCur
  | 0, c => .ok c
  | f + 1, c =>
    match c.bc with
    | none =>
      if c.metaIdx = 0 then .ok ⟨0, none⟩
      else
        match ld (c.metaIdx - 1) with
        | .error e => .error e
        | .ok es =>
          let b := (Ref.mk es 0).last.prev
          if b.kv.isSome then .ok ⟨c.metaIdx - 1, some b⟩ else prevG f ⟨c.metaIdx - 1, none⟩
    | some b =>
      let b' := b.prev
      if b'.kv.isSome then .ok ⟨c.metaIdx, some b'⟩ else prevG f ⟨c.metaIdx, none⟩

/-- `SstCursor::seek`, given `seek_index`'s answer `idx` -/
def seekG (idx : Nat) (k : List Nat) : Except Err LCur :=
  if idx ≥ n then .ok ⟨n, none⟩
  else
    match ld idx with
    | .error e => .error e
    | .ok es =>
      let b := (Ref.mk es 0).seek (atOrAfter k)
      if b.kv.isSome then .ok ⟨idx, some b⟩
      else if idx + 1 ≥ n then .ok ⟨n, none⟩
      else
        match ld (idx + 1) with
        | .error e => .error e
        | .ok es' => .ok ⟨idx + 1, some ((Ref.mk es' 0).seek (atOrAfter k))⟩

/-- walk from the cursor with `next` until the end or an error; what was delivered, and the error -/
def walkFwdG : Nat → LCur → List KV → List KV × Option Err
  | 0, _, acc => (acc.reverse, none)
  | f + 1, c, acc =>
    match nextG n ld (n + 2) c with
    | .error e => (acc.reverse, some e)
    | .ok c' =>
      match c'.kv with
      | none => (acc.reverse, none)
      | some e => walkFwdG f c' (e :: acc)

def walkBwdG : Nat → LCur → List KV → List KV × Option Err
  | 0, _, acc => (acc.reverse, none)
  | f + 1, c, acc =>
    match prevG ld (n + 2) c with
    | .error e => (acc.reverse, some e)
    | .ok c' =>
      match c'.kv with
      | none => (acc.reverse, none)
      | some e => walkBwdG f c' (e :: acc)

/-- the scan of `Sst::load`: `while key < target { next }` -/
def scanG (k : List Nat) (ts : Nat) : Nat → LCur → Except Err LCur
  | 0, c => .ok c
  | f + 1, c =>
    match c.kv with
    | some e =>
      if keyRefLt e.key e.ts k ts then
        match nextG n ld (n + 2) c with
        | .error x => .error x
        | .ok c' => scanG k ts f c'
      else .ok c
    | none => .ok c

/-- `Sst::load` for a key the filter does not rule out -/
def loadG (fuel idx : Nat) (k : List Nat) (ts : Nat) : Except Err Loaded :=
  match seekG n ld idx k with
  | .error e => .error e
  | .ok c =>
    match scanG n ld k ts fuel c with
    | .error e => .error e
    | .ok c' => .ok (loadedOf k c'.kv)

/-- the first and the last key, as `Sst::metadata` finds them -/
def endsG : Except Err (Option KV × Option KV) :=
  match nextG n ld (n + 2) ⟨0, none⟩ with
  | .error e => .error e
  | .ok cf =>
    match prevG ld (n + 2) ⟨n, none⟩ with
    | .error e => .error e
    | .ok cl => .ok (cf.kv, cl.kv)

end generic

/-- `seek_index`: `partition_point(entry.key < key)` over the (sorted) index keys -/
def Opened.seekIndex (t : Opened) (k : List Nat) : Nat := (t.entries.takeWhile (fun e => keyLt e.1 k)).length

/-- the bound on the number of entries of a table: every entry takes a byte of the file -/
def Opened.fuel (t : Opened) : Nat := t.file.length + 2

def Opened.next (t : Opened) (c : LCur) : Except Err LCur := nextG t.entries.length (t.loadIdx crc) (t.entries.length + 2) c
def Opened.prev (t : Opened) (c : LCur) : Except Err LCur := prevG (t.loadIdx crc) (t.entries.length + 2) c
def Opened.seek (t : Opened) (k : List Nat) : Except Err LCur := seekG t.entries.length (t.loadIdx crc) (t.seekIndex k) k

/-- `seek_to_first` and `next` to the end -/
def Opened.forward (t : Opened) : List KV × Option Err :=
  walkFwdG t.entries.length (t.loadIdx crc) t.fuel t.toFirst []
/-- `seek_to_last` and `prev` to the beginning -/
def Opened.backward (t : Opened) : List KV × Option Err :=
  walkBwdG t.entries.length (t.loadIdx crc) t.fuel t.toLast []

/-- `Sst::load` -/
def Opened.load (t : Opened) (k : List Nat) (ts : Nat) : Except Err Loaded :=
  loadG t.entries.length (t.loadIdx crc) t.fuel (t.seekIndex k) k ts

def Opened.metaOf (t : Opened) (ends : Option KV × Option KV) : Metadata :=
  ⟨t.fin.setsum, (match ends.1 with | some e => e.key | none => []),
   (match ends.2 with | some e => e.key | none => MAX_KEY), t.fin.smallest, t.fin.biggest, t.fileSize⟩

/-- `Sst::metadata` -/
def Opened.metadata (t : Opened) : Except Err Metadata :=
  match endsG t.entries.length (t.loadIdx crc) with
  | .error e => .error e
  | .ok ends => .ok (t.metaOf ends)

end Blue.SstOpen
