import Blue.Model.ListFree
/-! The reading side of `listfree::List` (`iter()` = one load of the head, `next()` = data of the
    node + one load of its `next`), and what the next step of a prepending thread does to memory
    (for trace validation). -/
namespace Blue.ListFree
variable {D : Type}

/-- `ListIterator::next`: `none` at the null pointer, else the node's data and the pointer loaded -/
def iterNext (heap : List (Node D)) : Option Nat → Option (D × Option Nat)
  | none => none
  | some p => match heap[p]? with
    | some nd => some (nd.data, nd.next)
    | none => none

inductive Acc where
  | alloc (n : Nat)
  | loadHead (r : Option Nat)
  | store (n : Nat) (v : Option Nat)
  | cas (old : Option Nat) (new : Nat) (ok : Bool)
deriving DecidableEq, Repr

def access (s : St D) (i : Nat) : Option Acc :=
  match s.pcs i with
  | .idle => none
  | .alloc _ => some (.alloc s.heap.length)
  | .load _ => some (.loadHead s.head)
  | .setNext n h => some (.store n h)
  | .cas n h => some (.cas h n (decide (s.head = h)))

def isIdle (s : St D) (i : Nat) : Bool :=
  match s.pcs i with
  | .idle => true
  | _ => false

/-- data along the chain from the head (what a full iteration yields in this state) -/
def contents (s : St D) : List D := walk s.heap s.heap.length s.head

end Blue.ListFree
