import Blue.Model.Log
import Blue.Model.LogCrash
import Blue.Model.FsyncCore
/-! `ConcurrentLogBuilder::append` (sst/src/log.rs) as ONE machine: the write queue, the write core,
    the log writer, the file, the fsync queue and the fsync core.

    ```
    let written = self.write_cq.do_work(Arc::new(write_batch))?;      // queue 1, WriteCoalescingCore
    if !self.fsync_cq.do_work(written) { return Err(fsync_failed) }   // queue 2, FsyncCoalescingCore
    Ok(())
    ```

    The two `WorkCoalescingQueue`s enter through their SPEC, not through their wake-up protocol
    (`Blue.WcqV`: `core_sees_inputs_once_in_order`, `own_result`, `never_panics`): a leader's batch is
    the next `n ≥ 1` inputs in link order, no input twice, none skipped, at most one batch inside
    `work` at a time (the core's mutex), and every member is handed the output `work` produced for it.

    * `link buf`   a caller enters the write queue (`append` refuses the empty buffer before the
                   queue; `WriteBatch` holds at most `lim` bytes);
    * `write n`    the write leader takes the next `n` callers; `batch` = `WriteBatch::merge` =
                   concatenation of the buffers in that order (`can_batch`: the sum stays within
                   `lim`); `work`: `self.written += acc.buffer.len()`, ONE `LogBuilder::append` of the
                   merged buffer (one frame, or the two frames of a split, `Blue.Log.appendAt` at the
                   builder's position) and `flush` — one `write` of those bytes on the file model
                   `Blue.LogCrash.FileSt`; every member is answered `Ok(self.written)`: the same
                   cumulative PAYLOAD byte count;
    * `flink i`    caller `i`, whose write has returned, enters the fsync queue with that number;
    * `fenter n`   the fsync leader takes the next `n` entries; `batch` = `max`; `work` is
                   `Blue.FsyncCore.rstep (.enter inputs)`: answered `true` at once when
                   `synced >= acc`, otherwise an `fdatasync` is issued (the file length at that moment
                   is remembered: it is all the call can promise);
    * `fret ok`    the call in flight returns.  `ok`: `synced := acc`, the bytes that were in the file
                   when it was ISSUED become durable (`syncUpto`; bytes written while it was in flight
                   stay pending), members answered `true`.  `!ok`: members answered `false`
                   (`Err(corruption_fsync_failed)`), nothing moves; the `poison` flag is never read.

    Not modelled: a failing `write`/`flush` (`Err` to every member, `self.written` already advanced),
    `table_full` / `rollover_size`, `ConcurrentLogBuilder::fsync()` (an entry `0` in the fsync queue),
    `can_batch` of the fsync core (any batching is admitted, which is more). -/
namespace Blue.ConcLog
open Blue.Log Blue.LogCrash

/-- what the write core answered a caller -/
structure WRet where
  /-- index of the leader's batch (= of the log record) that holds the caller's buffer -/
  round : Nat
  /-- `Ok(self.written)`: cumulative payload bytes up to and including that batch -/
  off : Nat
  deriving DecidableEq, Repr

structure St where
  /-- the callers' buffers in write-queue link order: caller `i` is index `i` -/
  bufs : List (List Nat)
  /-- the leaders' batches handed to the write core's `work`, in order -/
  groups : List (List (List Nat))
  /-- the write core's answers; caller `i` at index `i` (length = callers handed to the core) -/
  wrets : List WRet
  /-- `WriteCoalescingCore::written` -/
  written : Nat
  file : FileSt
  /-- the fsync queue in ITS link order: (caller, the offset it passes to `do_work`) -/
  fq : List (Nat × Nat)
  /-- entries of `fq` handed to the fsync core -/
  ftaken : Nat
  fs : Blue.FsyncCore.RSt
  /-- the members waiting for the `fdatasync` in flight -/
  fmem : List (Nat × Nat)
  /-- the file length when that call was issued -/
  fpos : Nat
  /-- what the fsync queue handed back: (caller, answer); `true` ↦ `append` returns `Ok(())`,
      `false` ↦ `Err(corruption_fsync_failed)` -/
  answers : List (Nat × Bool)
  /-- ghost: the events of the fsync core so far (`fs = Blue.FsyncCore.run trace`) -/
  trace : List Blue.FsyncCore.REv

inductive Ev where
  | link (buf : List Nat)
  | write (n : Nat)
  | flink (i : Nat)
  | fenter (n : Nat)
  | fret (ok : Bool)
  deriving DecidableEq, Repr

def init : St := ⟨[], [], [], 0, ⟨[], []⟩, [], 0, Blue.FsyncCore.init, [], 0, [], []⟩

/-- the log records: each leader's batch merged (`WriteBatch::merge` concatenates) -/
def merged (s : St) : List (List Nat) := s.groups.map List.flatten

/-- `LogBuilder::bytes_written` -/
def flen (f : FileSt) : Nat := f.synced.length + f.pending.length

/-- an `fdatasync` issued when the file was `k` bytes long has returned: those bytes are durable -/
def syncUpto (f : FileSt) (k : Nat) : FileSt :=
  ⟨f.synced ++ f.pending.take (k - f.synced.length), f.pending.drop (k - f.synced.length)⟩

variable (P : Params) (lim : Nat)

def stepLink (s : St) (buf : List Nat) : St :=
  if buf.length = 0 ∨ lim < buf.length then s else { s with bufs := s.bufs ++ [buf] }

def stepWrite (s : St) (n : Nat) : St :=
  let g := (s.bufs.drop s.wrets.length).take n
  let m := g.flatten
  if n = 0 ∨ s.bufs.length < s.wrets.length + n ∨ lim < m.length then s
  else
    let w := s.written + m.length
    { s with
      groups := s.groups ++ [g]
      wrets := s.wrets ++ List.replicate n ⟨s.groups.length, w⟩
      written := w
      file := s.file.apply (.write (appendAt P 2 (flen s.file) m))
      fs := (Blue.FsyncCore.rstep s.fs (.wrote w)).1
      trace := s.trace ++ [.wrote w] }

def stepFlink (s : St) (i : Nat) : St :=
  match s.wrets[i]? with
  | none => s
  | some w => if i ∈ s.fq.map Prod.fst then s else { s with fq := s.fq ++ [(i, w.off)] }

def stepFenter (s : St) (n : Nat) : St :=
  let mem := (s.fq.drop s.ftaken).take n
  let inputs := mem.map Prod.snd
  if n = 0 ∨ s.fq.length < s.ftaken + n ∨ s.fs.flight.isSome then s
  else
    let r := Blue.FsyncCore.rstep s.fs (.enter inputs)
    match r.2 with
    | some a =>
      { s with ftaken := s.ftaken + n, fs := r.1, answers := s.answers ++ mem.map (fun e => (e.1, a.ok)),
               trace := s.trace ++ [.enter inputs] }
    | none =>
      if r.1.flight.isSome then
        { s with ftaken := s.ftaken + n, fs := r.1, fmem := mem, fpos := flen s.file,
                 trace := s.trace ++ [.enter inputs] }
      else s

def stepFret (s : St) (ok : Bool) : St :=
  let r := Blue.FsyncCore.rstep s.fs (.ret ok)
  match r.2 with
  | none => s
  | some a =>
    { s with fs := r.1, answers := s.answers ++ s.fmem.map (fun e => (e.1, a.ok)), fmem := [],
             file := if a.ok then syncUpto s.file s.fpos else s.file,
             trace := s.trace ++ [.ret ok] }

def step (s : St) : Ev → St
  | .link buf => stepLink lim s buf
  | .write n => stepWrite P lim s n
  | .flink i => stepFlink s i
  | .fenter n => stepFenter s n
  | .fret ok => stepFret s ok

def run (evs : List Ev) : St := evs.foldl (step P lim) init

/-- `append` of caller `i` has returned `Ok(())` -/
def acked (s : St) (i : Nat) : Bool := decide ((i, true) ∈ s.answers)
/-- `append` of caller `i` has returned `Err(corruption_fsync_failed)` -/
def failed (s : St) (i : Nat) : Bool := decide ((i, false) ∈ s.answers)

/-- what a sequential `LogBuilder` writes for the same records, one `append` after the other -/
def sequentialFile (s : St) : List Nat := writeAll P (merged s) 0

end Blue.ConcLog
