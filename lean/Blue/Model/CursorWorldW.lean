import Blue.Model.CursorWorld
/-! `Blue.CursorWorld` with the flush SPLIT into its two critical sections
    (`KeyValueStore::_memtable_thread`, lsmtk/src/kvs/mod.rs):

    * `flushInstall f` — `self.tree._ingest(&sst_path, …)` (mod.rs:310): the version `cur ++ [f]` is
      installed (`FileRefs.step … (.install …)`), file `f` holds the entries of the immutable
      memtable; `state.imm` STILL holds that memtable;
    * `flushClear` — `state.imm = None` under the state lock (mod.rs:321-322): the store drops its
      handle on the immutable memtable (`SkipOwn.step … .dropList`).

    Between the two (the WINDOW) `range_scan` (mod.rs:589-600) clones, under the state lock,
    `state.mem`, `state.imm` (still `Some`) and `self.tree.take_snapshot()` (the version that
    already lists `f`): the cursor has the flushed entries in TWO children.

    The state is a `Blue.CursorWorld.St` plus the ghost `win` (the file installed by a flush whose
    clear is still to come).  Every event other than the two halves of the flush is
    `Blue.CursorWorld.step` on the base state, literally; `openCursor` therefore captures
    `CursorWorld.capture`: memtable, immutable memtable (if `imm` is `some`) and the files of the
    CURRENT version — inside the window that version contains `f`.

    Stated restrictions: `flushInstall f` asks that no entry of `fileData` is named `f` yet (the
    ghost `fileData` is looked up by first match; in the code the flushed file is named after the
    setsum of its contents, so an equal name has equal contents); one flush at a time (one
    `_memtable_thread`); the simplifications of `Blue.CursorWorld` (atomic writes, …) stay. -/
namespace Blue.CursorWorldW
open Blue.Spec Blue.Cursor Blue.CursorWorld

structure St (F K : Type) where
  base : CursorWorld.St F K
  /-- `some f`: `_ingest` has installed `f`, `state.imm = None` has not happened yet -/
  win : Option F

inductive Ev (F K : Type) where
  | write (k : K)
  | rollover
  /-- first half of the flush: `_ingest` installs the version with the new file `f` -/
  | flushInstall (f : F)
  /-- second half: `state.imm = None` -/
  | flushClear
  | compactInstall (files : List F) (data : List (F × List (Ver K)))
  | verifierPass
  | openCursor (sb eb : Bound K)
  | stepCursor (i : Nat) (o : Op (Ver K))
  | dropCursor (i : Nat)

variable {F K : Type} [DecidableEq F] [DecidableEq K]

/-- `_ingest` of the flushed file: the `FileRefs` install of `cur ++ [f]`; tables and `imm` untouched -/
def installB (s : CursorWorld.St F K) (f : F) : Option (CursorWorld.St F K) :=
  match s.imm with
  | none => none
  | some t =>
    if s.fileData.all (fun p => !decide (p.1 = f)) then
      some { s with files := FileRefs.step s.files (.install (curFiles s.files ++ [f])),
                    fileData := s.fileData ++ [(f, s.tabData.getD t [])] }
    else none

/-- `state.imm = None`: the `SkipOwn` `dropList` on the immutable memtable's table -/
def clearB (s : CursorWorld.St F K) : Option (CursorWorld.St F K) :=
  match s.imm with
  | none => none
  | some t => (onTable s.tables t .dropList).map fun ts => { s with tables := ts, imm := none }

/-- the events that are events of `Blue.CursorWorld` unchanged -/
def same : Ev F K → Option (CursorWorld.Ev F K)
  | .write k => some (.write k)
  | .rollover => some .rollover
  | .compactInstall files data => some (.compactInstall files data)
  | .verifierPass => some .verifierPass
  | .openCursor sb eb => some (.openCursor sb eb)
  | .stepCursor i o => some (.stepCursor i o)
  | .dropCursor i => some (.dropCursor i)
  | .flushInstall _ => none
  | .flushClear => none

def step (klt : K → K → Bool) (tomb : Ver K → Bool) (s : St F K) (e : Ev F K) : Option (St F K) :=
  match same e with
  | some e' => (CursorWorld.step klt tomb s.base e').map fun b => ⟨b, s.win⟩
  | none =>
    match e with
    | .flushInstall f =>
      (match s.win with
       | some _ => none
       | none => (installB s.base f).map fun b => ⟨b, some f⟩)
    | .flushClear =>
      (match s.win with
       | none => none
       | some _ => (clearB s.base).map fun b => ⟨b, none⟩)
    | _ => none

def run (klt : K → K → Bool) (tomb : Ver K → Bool) : St F K → List (Ev F K) → Option (St F K)
  | s, [] => some s
  | s, e :: es =>
    match step klt tomb s e with
    | some s' => run klt tomb s' es
    | none => none

def init (files : List F) (data : List (F × List (Ver K))) : St F K := ⟨CursorWorld.init files data, none⟩

/-- the call made on cursor `i` by one event -/
def callOf (i : Nat) : Ev F K → List (Op (Ver K))
  | .stepCursor j o => if j = i then [o] else []
  | _ => []

def callsOf (i : Nat) : List (Ev F K) → List (Op (Ver K))
  | [] => []
  | e :: es => callOf i e ++ callsOf i es

/-- the contents of the store at open time with the flushed entries counted ONCE: memtable + files of
    the current version (inside the window that version lists `f`, whose entries are those of the
    immutable memtable) — `CursorWorld.capture` without the immutable-memtable child -/
def captureOnce (s : CursorWorld.St F K) : Snap.Held K :=
  ⟨s.seq, s.tabData.getD (s.tables.length - 1) [], (curFiles s.files).flatMap (dataOf s.fileData), 0⟩

end Blue.CursorWorldW
