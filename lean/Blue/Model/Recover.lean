import Blue.Model.NextCompaction
import Blue.Model.ApplyCompaction
/-! `tree::recover::recover` (lsmtk/src/tree/recover.rs:53-160, called by `Version::open`,
    tree/mod.rs:238) as a FUNCTION: the version a reopen builds from the SST metadata the manifest
    lists.  Levels are NOT persisted; they are recomputed from key ranges and timestamp ranges only.

    What the code does, line by line:
    * `construct_adj_list` (recover.rs:162-190): `Err(corruption)` if a file has
      `smallest_timestamp > biggest_timestamp`; for `i < j` with `key_range_overlap` (closed ranges:
      touching ranges DO overlap, recover.rs:12-14): `i.bts < j.sts` → edge `(j, i)`;
      else `j.bts < i.sts` → edge `(i, j)`; else BOTH edges.  An edge `(u, v)` reads "u above v".
      With `sts ≤ bts` for every file (checked first) this is: `u → v` iff the key ranges overlap
      and NOT `u.bts < v.sts` (`edge`).
    * `tarjan_scc` (recover.rs:202-270) colours every vertex by its strongly connected component.
      Only the PARTITION matters below (the colour is an identifier); it is computed here by mutual
      reachability (`sameScc`), the definition of the partition Tarjan's algorithm computes (the
      transcription of the unrolled Tarjan loop is not done; its correctness is assumed).
    * levels (recover.rs:85-116): the DAG of colours; colours without an incoming edge get level 0;
      the stack loop raises `level[v]` to `level[u] + 1` along every colour edge until nothing
      changes: the longest-path depth of the colour (`depth`).
    * every file gets the level of its colour (recover.rs:118-122): files that overlap in key range
      AND in timestamp range (both edges) are one component and share a level.
    * clamp (recover.rs:124-138): if the deepest level is `≥ NUM_LEVELS`, `delta = max - 15`, levels
      `< delta` become 0, the others lose `delta` (`clampLevel`): the top `delta + 1` levels merge
      into level 0.
    * level 0 is `sort_by_key(smallest_timestamp)` (stable); the other levels are sorted by
      `KeyRef(first_key, smallest_timestamp)`: key ascending, then timestamp DESCENDING
      (sst/src/lib.rs:796-802).  "NOTE(rescrv): This is a little sloppy.  It assumes the graph
      algorithm is correct, so comparison by smallest key is sufficient" (recover.rs:146-147).

    `smallest_timestamp` is not a field of `Blue.NextCompaction.File`; it is the minimum of the
    timestamps of the versions the file holds (what the SST builder records), `sts`. -/
deriving instance DecidableEq for Blue.NextCompaction.File

namespace Blue.Recover
open Blue.NextCompaction

/-- `NUM_LEVELS` (tree/mod.rs:36) -/
def numLevels : Nat := 16

/-- `SstMetadata::smallest_timestamp`: the minimum over the versions held (an empty file: `bts`) -/
def sts (f : File) : Nat :=
  match f.vers with
  | [] => f.bts
  | v :: vs => vs.foldl (fun m x => if x.2 < m then x.2 else m) v.2

/-- `key_range_overlap` -/
def keyOverlap (a b : File) : Bool := decide (a.first ≤ b.last) && decide (b.first ≤ a.last)

/-- the timestamp ranges `[sts, bts]` intersect -/
def tsOverlap (a b : File) : Bool := !(decide (a.bts < sts b) || decide (b.bts < sts a))

/-- the edge `a → b` ("a above b") of `construct_adj_list`, for distinct files with `sts ≤ bts` -/
def edge (a b : File) : Bool := (a.id != b.id) && keyOverlap a b && !decide (a.bts < sts b)

/-- a path `a → … → b` of at most `fuel + 1` edges -/
def reach (fs : List File) : Nat → File → File → Bool
  | 0, a, b => edge a b
  | n + 1, a, b => edge a b || fs.any (fun c => edge a c && reach fs n c b)

/-- the same strongly connected component (the same colour after `tarjan_scc`) -/
def sameScc (fs : List File) (a b : File) : Bool :=
  (a.id == b.id) || (reach fs fs.length a b && reach fs fs.length b a)

def maxList : List Nat → Nat
  | [] => 0
  | x :: xs => Nat.max x (maxList xs)

/-- the level of the colour of `a` after the stack loop: longest path in the DAG of colours.  An edge
    `p → m` between two colours, `m` of the colour of `a`, forces `level a ≥ level p + 1`. -/
def depth (fs : List File) : Nat → File → Nat
  | 0, _ => 0
  | n + 1, a =>
    maxList (fs.flatMap (fun m => if sameScc fs m a then
      fs.filterMap (fun p => if edge p m && !sameScc fs p m then some (depth fs n p + 1) else none)
      else []))

/-- the level before the clamp -/
def rawLevel (fs : List File) (a : File) : Nat := depth fs fs.length a

/-- "Adjust levels downward so that max_level == NUM_LEVELS" (recover.rs:123-138) -/
def clampLevel (maxL l : Nat) : Nat :=
  if maxL ≥ numLevels then (if l < maxL - numLevels + 1 then 0 else l - (maxL - numLevels + 1)) else l

/-- `levels[0].ssts.sort_by_key(|x| x.smallest_timestamp)` -/
def le0 (a b : File) : Bool := decide (sts a ≤ sts b)

/-- `KeyRef::new(first_key, smallest_timestamp).cmp(..)`: key ascending, timestamp descending -/
def leDeep (a b : File) : Bool := decide (a.first < b.first) || (decide (a.first = b.first) && decide (sts b ≤ sts a))

/-- a stable sort (`sort_by` / `sort_by_key` are stable): insertion sort, which the kernel evaluates
    (`List.mergeSort` is defined by well-founded recursion) -/
def insertBy (le : File → File → Bool) (x : File) : List File → List File
  | [] => [x]
  | y :: ys => if le x y then x :: y :: ys else y :: insertBy le x ys

def insSort (le : File → File → Bool) : List File → List File
  | [] => []
  | x :: xs => insertBy le x (insSort le xs)

def sortLevel (i : Nat) (l : List File) : List File := if i = 0 then insSort le0 l else insSort leDeep l

/-- the version built from a level assignment: `levels[v.level].ssts.push(m)` in metadata order, the
    clamp, the two sorts -/
def treeOf (L : File → Nat) (fs : List File) : Tree :=
  let maxL := maxList (fs.map L)
  (List.range numLevels).map (fun i => sortLevel i (fs.filter (fun f => clampLevel maxL (L f) == i)))

/-- **`recover(options, metadata)`** (the `Ok` case) -/
def recoverTree (fs : List File) : Tree := treeOf (rawLevel fs) fs

/-- `recover` with the `Err(corruption "metadata timestamps not in order")` of `construct_adj_list` -/
def recover (fs : List File) : Option Tree :=
  if fs.all (fun f => decide (sts f ≤ f.bts)) then some (recoverTree fs) else none

/-- no two distinct files overlap in key range AND in timestamp range: the class on which the graph
    of `construct_adj_list` has no two-way edge -/
def noKeyTsOverlapB (fs : List File) : Bool :=
  fs.all (fun a => fs.all (fun b => (a.id == b.id) || !(keyOverlap a b && tsOverlap a b)))

end Blue.Recover
