import Blue.Model.Cursor
/-! Bounds cursor (sst/src/bounds_cursor.rs) over a reference child cursor.
    `prev` is modelled as planned for the repair of D-19 (re-check the end bound while stepping back). -/
namespace Blue.Cursor

/-- the four key tests the bounds cursor performs, as predicates on entries -/
structure BoundsCfg (E : Type) where
  /-- `start_bound` is `Unbounded` -/
  startUnbounded : Bool
  /-- `end_bound` is `Unbounded` -/
  endUnbounded : Bool
  /-- `end_bound` is `Included` -/
  endIncluded : Bool
  /-- entry key ≥ start key (what `cursor.seek(start)` looks for) -/
  geStart : E → Bool
  /-- entry key ≥ end key (what `cursor.seek(end)` looks for) -/
  geEnd : E → Bool
  /-- entry key == end key -/
  eqEnd : E → Bool
  /-- `check_for_start_bound_exceeded` fires -/
  belowStart : E → Bool
  /-- `check_for_end_bound_exceeded` fires -/
  aboveEnd : E → Bool

inductive BState where
  | beforeStart | positioned | afterEnd
deriving DecidableEq, Repr

structure Bounds (E : Type) where
  c : Ref E
  st : BState

namespace Bounds
variable {E : Type} (cfg : BoundsCfg E) (n : Nat)

def key (b : Bounds E) : Option E := if b.st = .positioned then b.c.kv else none

def checkStart (b : Bounds E) : Bounds E :=
  match b.key with
  | some e => if cfg.belowStart e then { b with st := .beforeStart } else b
  | none => b

def checkEnd (b : Bounds E) : Bounds E :=
  match b.key with
  | some e => if cfg.aboveEnd e then { b with st := .afterEnd } else b
  | none => b

def stepBackIfSome (c : Ref E) : Ref E := if c.kv.isSome then c.prev else c

def seekToFirst (b : Bounds E) : Bounds E :=
  let c := if cfg.startUnbounded then b.c.first else b.c.seek cfg.geStart
  checkEnd cfg ⟨stepBackIfSome c, .beforeStart⟩

/-- `while let Some(key) = cursor.key() { if key == end { next } else break }` -/
def skipEq : Nat → Ref E → Ref E
  | 0, c => c
  | f+1, c => match c.kv with
    | some e => if cfg.eqEnd e then skipEq f c.next else c
    | none => c

def seekToLast (b : Bounds E) : Bounds E :=
  let c := if cfg.endUnbounded then b.c.last
           else if cfg.endIncluded then skipEq cfg n (b.c.seek cfg.geEnd)
           else b.c.seek cfg.geEnd
  checkStart cfg ⟨c, .afterEnd⟩

/-- `while bounds != AfterEnd { next; Positioned; check start; check end; if != BeforeStart return }` -/
def nextLoop : Nat → Bounds E → Bounds E
  | 0, b => b
  | f+1, b =>
    if b.st = .afterEnd then b else
    let b1 := checkEnd cfg (checkStart cfg ⟨b.c.next, .positioned⟩)
    if b1.st ≠ .beforeStart then b1 else nextLoop f b1

def next (b : Bounds E) : Bounds E := nextLoop cfg n b

/-- repaired `prev`: the mirror image of `next` -/
def prevLoop : Nat → Bounds E → Bounds E
  | 0, b => b
  | f+1, b =>
    if b.st = .beforeStart then b else
    let b1 := checkStart cfg (checkEnd cfg ⟨b.c.prev, .positioned⟩)
    if b1.st ≠ .afterEnd then b1 else prevLoop f b1

def prev (b : Bounds E) : Bounds E := prevLoop cfg n b

def seek (pred : E → Bool) (b : Bounds E) : Bounds E :=
  let b1 := checkStart cfg (checkEnd cfg ⟨b.c.seek pred, .positioned⟩)
  if b1.st = .beforeStart then next cfg n (seekToFirst cfg b1) else b1

def kv (b : Bounds E) : Option E := b.key

def new (c : Ref E) : Bounds E := seekToFirst cfg ⟨c, .beforeStart⟩

end Bounds
end Blue.Cursor
