import Blue.Model.Block
import Blue.Model.BlockCursor
/-! The rest of `sst/src/block.rs` around the entry area: the builder's input checks
    (`check_key_len`, `check_value_len`, `check_table_size`, `enforce_sort_order`), `seal` (the
    footer: restart offsets and their count), `Block::new` (the footer read back, with the two
    unchecked subtractions of D-23 and their checked repair), and the step from a block's *bytes*
    to the decoded block (`entries`, restart *indices*) that `BlockCursor` is modelled over. -/
namespace Blue.Block
open Blue.Wire Blue.EntryCodec Blue.BlockCursor

/-! ## limits (tied to the source by `Blue.ConstsTie`) -/
def MAX_KEY_LEN : Nat := 16384
def MAX_VALUE_LEN : Nat := 32768
def TABLE_FULL_SIZE : Nat := 1006632960
def U64MAX : Nat := 18446744073709551615

/-! ## key order -/
/-- `<[u8] as Ord>::lt` -/
def keyLt : List Nat → List Nat → Bool
  | [], [] => false
  | [], _ :: _ => true
  | _ :: _, [] => false
  | a :: as, b :: bs => if a < b then true else if b < a then false else keyLt as bs

/-- `KeyRef::cmp == Less`: key ascending, then timestamp *descending* -/
def keyRefLt (k1 : List Nat) (t1 : Nat) (k2 : List Nat) (t2 : Nat) : Bool :=
  keyLt k1 k2 || (!keyLt k2 k1 && decide (t2 < t1))

def KV.lt (a b : KV) : Bool := keyRefLt a.key a.ts b.key b.ts

/-! ## the checked builder -/
inductive PutErr where
  | keyTooLarge | valueTooLarge | tableFull | sortOrder
deriving DecidableEq, Repr

/-- `BlockBuilder` with the field the unchecked `Builder` leaves out -/
structure CBuilder where
  b : Builder
  lastTs : Nat

def CBuilder.init : CBuilder := ⟨Builder.init, U64MAX⟩

/-- `BlockBuilder::approximate_size` -/
def Builder.approxSize (b : Builder) : Nat := b.buffer.length + 16 + 4 * b.restarts.length

/-- the decision of `put` / `del`, in the order the code takes it; `none` = accepted -/
def putCheck (approx : Nat) (lastKey : List Nat) (lastTs : Nat) (e : KV) : Option PutErr :=
  if e.key.length > MAX_KEY_LEN then some .keyTooLarge
  else if (match e.val with | some v => decide (v.length > MAX_VALUE_LEN) | none => false) then some .valueTooLarge
  else if approx ≥ TABLE_FULL_SIZE then some .tableFull
  else if !keyRefLt lastKey lastTs e.key e.ts then some .sortOrder
  else none

/-- `Builder::put` / `Builder::del` for `BlockBuilder`: an error leaves the builder as it was -/
def CBuilder.put (o : Opts) (c : CBuilder) (e : KV) : Except PutErr CBuilder :=
  match putCheck c.b.approxSize c.b.lastKey c.lastTs e with
  | some err => .error err
  | none => .ok ⟨c.b.add o e, e.ts⟩

/-- feed a list of attempts; the outcome of each, and the builder at the end -/
def CBuilder.putAll (o : Opts) : CBuilder → List KV → List (Option PutErr) × CBuilder
  | c, [] => ([], c)
  | c, e :: es =>
    match c.put o e with
    | .error err => let r := CBuilder.putAll o c es; (some err :: r.1, r.2)
    | .ok c' => let r := CBuilder.putAll o c' es; (none :: r.1, r.2)

/-! ## seal -/
def le32 (n : Nat) : List Nat := [n % 256, n / 256 % 256, n / 65536 % 256, n / 16777216 % 256]

def le64 (n : Nat) : List Nat := le32 (n % 4294967296) ++ le32 (n / 4294967296)

def unle32 : List Nat → Nat
  | [b0, b1, b2, b3] => b0 + 256 * b1 + 65536 * b2 + 16777216 * b3
  | _ => 0

/-- the footer's two fields: the packed restart offsets (length delimited) and the restart count
    (fixed32) — tied to the source by `Blue.ConstsTie` -/
def FOOTER_RESTARTS : Nat := 10
def FOOTER_COUNT : Nat := 11

/-- `|tag 10|v64 of num bytes|packed num_restarts u32s|tag 11|fixed32 capstone|` -/
def footer (restarts : List Nat) : List Nat :=
  encVarint (FOOTER_RESTARTS * 8 + 2) ++ encVarint (4 * restarts.length) ++ restarts.flatMap le32
    ++ encVarint (FOOTER_COUNT * 8 + 5) ++ le32 restarts.length

/-- `BlockBuilder::seal` (the bytes handed to `Block::new`) -/
def Builder.seal (b : Builder) : List Nat := b.buffer ++ footer b.restarts

/-! ## `Block::new` -/
structure Blk where
  bytes : List Nat
  boundary : Nat
  restartsIdx : Nat
  num : Nat
deriving Repr

inductive NewRes where
  | ok (b : Blk)
  | tooSmall
  /-- `usize` subtraction underflow (D-23): a panic in the code as found, a corruption error once
      the subtractions are checked -/
  | underflow
deriving Repr

def Blk.new (bytes : List Nat) : NewRes :=
  if bytes.length < 4 then .tooSmall
  else
    let num := unle32 (bytes.drop (bytes.length - 4))
    let body := 4 * num
    let head := 1 + (encVarint body).length
    if bytes.length < 5 + body then .underflow
    else
      let ridx := bytes.length - 5 - body
      if ridx < head then .underflow
      else .ok ⟨bytes, ridx - head, ridx, num⟩

/-- `Block::restart_point` -/
def Blk.restartPoint (b : Blk) (i : Nat) : Nat := unle32 ((b.bytes.drop (b.restartsIdx + 4 * i)).take 4)

def Blk.restartPoints (b : Blk) : List Nat := (List.range b.num).map b.restartPoint

/-! ## bytes → decoded block -/
/-- `extract_key` from offset 0 to the restarts boundary, remembering where each entry starts.
    At a restart point the cursor starts from an empty previous key (`seek_restart`,
    `cache_restart`). -/
def decodeOffs (restarts : List Nat) : Nat → List Nat → Nat → List Nat → Option (List (Nat × KV))
  | 0, _, _, _ => none
  | _+1, [], _, _ => some []
  | f+1, bs, off, prev =>
    let prev := if restarts.contains off then [] else prev
    match decEntry bs with
    | none => none
    | some (.put p, rest) =>
      let key := prev.take p.shared ++ p.keyFrag
      (decodeOffs restarts f rest (off + (bs.length - rest.length)) key).map
        (fun l => (off, ⟨key, p.timestamp, some p.value⟩) :: l)
    | some (.del d, rest) =>
      let key := prev.take d.shared ++ d.keyFrag
      (decodeOffs restarts f rest (off + (bs.length - rest.length)) key).map
        (fun l => (off, ⟨key, d.timestamp, none⟩) :: l)

/-- position of the entry that starts at offset `r` -/
def findOff (r : Nat) : List Nat → Option Nat
  | [] => none
  | x :: xs => if x = r then some 0 else (findOff r xs).map (· + 1)

/-- a restart offset as an entry index; an offset at or past the boundary names "one past the last
    entry" (the cursor refuses it: `offset >= restarts_boundary`) -/
def offToIdx (offs : List Nat) (boundary : Nat) (r : Nat) : Option Nat :=
  if r ≥ boundary then some offs.length else findOff r offs

def mapOpt {α β : Type} (f : α → Option β) : List α → Option (List β)
  | [] => some []
  | a :: as => match f a, mapOpt f as with
    | some b, some bs => some (b :: bs)
    | _, _ => none

/-- the decoded block a cursor walks -/
def Blk.toDBlock (b : Blk) : Option (DBlock KV) :=
  let rs := b.restartPoints
  match decodeOffs rs (b.boundary + 1) (b.bytes.take b.boundary) 0 [] with
  | none => none
  | some oes =>
    (mapOpt (offToIdx (oes.map (·.1)) b.boundary) rs).map fun ridx => ⟨oes.map (·.2), ridx⟩

/-! ## cursor programs over keys -/
inductive KOp where
  | first | last | next | prev
  | seek (k : List Nat)
deriving Repr

/-- "at or after the target key" — what `seek` compares (keys only) -/
def atOrAfter (k : List Nat) (e : KV) : Bool := !keyLt e.key k

/-- a call on keys as a call of the generic cursor programs -/
def KOp.toOp : KOp → Blue.Cursor.Op KV
  | .first => .first | .last => .last | .next => .next | .prev => .prev
  | .seek k => .seek (atOrAfter k)

def bstep (c : BCur KV) : KOp → BCur KV
  | .first => seekToFirst c
  | .last => seekToLast c
  | .next => BlockCursor.next c
  | .prev => BlockCursor.prev c
  | .seek k => BlockCursor.seek (atOrAfter k) c

/-- result of `load` -/
inductive Loaded where
  | absent
  | tombstone
  | value (v : List Nat)
deriving DecidableEq, Repr

def loadedOf (k : List Nat) : Option KV → Loaded
  | none => .absent
  | some e =>
    if e.key = k then (match e.val with | some v => .value v | none => .tombstone) else .absent

/-- `while let Some(kr) = cursor.key() { if kr >= target { break } else { cursor.next() } }` -/
def bscan (k : List Nat) (ts : Nat) : Nat → BCur KV → BCur KV
  | 0, c => c
  | f+1, c =>
    match kv c with
    | some e => if keyRefLt e.key e.ts k ts then bscan k ts f (BlockCursor.next c) else c
    | none => c

/-- `Block::load` -/
def bload (blk : DBlock KV) (k : List Nat) (ts : Nat) : Loaded :=
  let c := BlockCursor.seek (atOrAfter k) ⟨blk, .first⟩
  loadedOf k (kv (bscan k ts (blk.entries.length + 1) c))

end Blue.Block
