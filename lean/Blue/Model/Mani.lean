/-! The manifest's text format and replay (mani/src/lib.rs).  Strings are byte lists (the reader
    rejects non-ASCII lines); the CRC is a parameter. -/
namespace Blue.Mani

structure Edit where
  rm : List (List Nat)
  add : List (List Nat)
  info : List (Nat × List Nat)
deriving DecidableEq, Repr

def Edit.empty : Edit := ⟨[], [], []⟩

structure State where
  strs : List (List Nat)
  info : List (Nat × List Nat)
deriving DecidableEq, Repr

def setInfo (k : Nat) (v : List Nat) : List (Nat × List Nat) → List (Nat × List Nat)
  | [] => [(k, v)]
  | (k', v') :: t => if k' = k then (k, v) :: t else (k', v') :: setInfo k v t

/-- `apply_edit`: removals, then additions, then info -/
def applyEdit (s : State) (e : Edit) : State :=
  let strs := s.strs.filter (fun x => !e.rm.contains x)
  let strs := e.add.foldl (fun acc x => if acc.contains x then acc else acc ++ [x]) strs
  ⟨strs, e.info.foldl (fun acc kv => setInfo kv.1 kv.2 acc) s.info⟩

/-- `{:08x}` of a 32-bit value, as ASCII bytes -/
def hexDigit (n : Nat) : Nat := if n < 10 then 48 + n else 87 + n
def hex8 (c : Nat) : List Nat :=
  [hexDigit (c / 268435456 % 16), hexDigit (c / 16777216 % 16), hexDigit (c / 1048576 % 16),
   hexDigit (c / 65536 % 16), hexDigit (c / 4096 % 16), hexDigit (c / 256 % 16),
   hexDigit (c / 16 % 16), hexDigit (c % 16)]

variable (crc : List Nat → Nat)

def crcLine (body : List Nat) : List Nat := hex8 (crc body) ++ body ++ [10]

def SEP : List Nat := [45, 45, 45, 45, 45, 45, 45, 45]

/-- what `_apply` appends for one edit -/
def encodeEdit (e : Edit) : List Nat :=
  (e.rm.flatMap (fun s => crcLine crc (45 :: s))) ++
  (e.add.flatMap (fun s => crcLine crc (43 :: s))) ++
  (e.info.flatMap (fun kv => crcLine crc (kv.1 :: kv.2))) ++
  SEP ++ [10]

/-- `char::to_digit(16)` on a byte -/
def digitVal (b : Nat) : Option Nat :=
  if 48 ≤ b ∧ b ≤ 57 then some (b - 48)
  else if 97 ≤ b ∧ b ≤ 102 then some (b - 87)
  else if 65 ≤ b ∧ b ≤ 70 then some (b - 55)
  else none

def parseDigits : List Nat → Nat → Option Nat
  | [], acc => some acc
  | b :: t, acc => match digitVal b with
    | some d => parseDigits t (acc * 16 + d)
    | none => none

/-- `u32::from_str_radix(_, 16)` on eight bytes: an optional leading `+`, at least one digit -/
def parseHex8 (bs : List Nat) : Option Nat :=
  match bs with
  | 43 :: t => if t = [] then none else parseDigits t 0
  | _ => if bs = [] then none else parseDigits bs 0

inductive LineResult where
  | sep
  | rm (s : List Nat)
  | add (s : List Nat)
  | info (k : Nat) (s : List Nat)
  | corrupt
deriving DecidableEq, Repr

/-- one line of `ManifestIterator::next` (line terminator already removed) -/
def parseLine (line : List Nat) : LineResult :=
  if line.any (fun b => b ≥ 128) then .corrupt
  else if line = SEP then .sep
  else if line.length > 9 then
    match parseHex8 (line.take 8) with
    | none => .corrupt
    | some expected =>
      if crc (line.drop 8) ≠ expected then .corrupt
      else
        let action := (line.drop 8).headD 0
        let payload := line.drop 9
        if action = 43 then .add payload
        else if action = 45 then .rm payload
        else if action = 10 then .corrupt
        else .info action payload
  else .corrupt

/-- split off the first line (`BufRead::lines`: up to `\n`, which is dropped; a final line without
    `\n` is still a line; one trailing `\r` is dropped) -/
def splitLine : List Nat → List Nat × Option (List Nat)
  | [] => ([], none)
  | 10 :: rest => ([], some rest)
  | b :: rest => let r := splitLine rest; (b :: r.1, r.2)

def stripCr (l : List Nat) : List Nat := if l.getLast? = some 13 then l.dropLast else l

/-- read edits: the complete edits, and how reading ended (`true` = corruption error) -/
def readEdits : Nat → List Nat → Edit → List Edit × Bool
  | 0, _, _ => ([], true)
  | _+1, [], _ => ([], false)          -- end of file: an unterminated edit is dropped
  | f+1, bs, cur =>
    let (line, rest) := splitLine bs
    let rest' := rest.getD []
    match parseLine crc (stripCr line) with
    | .corrupt => ([], true)
    | .sep => let r := readEdits f rest' Edit.empty; (cur :: r.1, r.2)
    | .rm s => readEdits f rest' { cur with rm := cur.rm ++ [s] }
    | .add s => readEdits f rest' { cur with add := cur.add ++ [s] }
    | .info k s => readEdits f rest' { cur with info := cur.info ++ [(k, s)] }

end Blue.Mani
