/-! The manifest's text format and replay (mani/src/lib.rs).  Strings are byte lists (the reader
    rejects non-ASCII lines); the CRC is a parameter.  The string set and the info map are the
    sorted lists that stand for `BTreeSet<String>` / `BTreeMap<char, String>` (`apply_edit`,
    `to_edit` and the writer all go through them in that order); the `Edit` API is the repaired one
    (D-12, D-24), which refuses what the reader cannot hand back. -/
namespace Blue.Mani

structure Edit where
  rm : List (List Nat)
  add : List (List Nat)
  info : List (Nat × List Nat)
deriving DecidableEq, Repr

def Edit.empty : Edit := ⟨[], [], []⟩

structure State where
  strs : List (List Nat)
  info : List (Nat × List Nat)
deriving DecidableEq, Repr

/-- `String`'s `Ord` (the order of `BTreeSet<String>`): bytewise lexicographic -/
def ltBytes : List Nat → List Nat → Bool
  | [], [] => false
  | [], _ :: _ => true
  | _ :: _, [] => false
  | a :: s, b :: t => if a < b then true else if b < a then false else ltBytes s t

/-- `BTreeSet::insert` on the sorted, duplicate-free list that stands for the set -/
def insertStr (x : List Nat) : List (List Nat) → List (List Nat)
  | [] => [x]
  | y :: t => if x = y then y :: t else if ltBytes x y then x :: y :: t else y :: insertStr x t

/-- `BTreeMap::insert` on the list sorted by key that stands for the map -/
def setInfo (k : Nat) (v : List Nat) : List (Nat × List Nat) → List (Nat × List Nat)
  | [] => [(k, v)]
  | (k', v') :: t =>
    if k = k' then (k, v) :: t else if k < k' then (k, v) :: (k', v') :: t else (k', v') :: setInfo k v t

/-- `apply_edit`: removals, then additions, then info -/
def applyEdit (s : State) (e : Edit) : State :=
  let strs := s.strs.filter (fun x => !e.rm.contains x)
  let strs := e.add.foldl (fun acc x => insertStr x acc) strs
  ⟨strs, e.info.foldl (fun acc kv => setInfo kv.1 kv.2 acc) s.info⟩

/-! The `Edit` API as repaired (D-12, D-24): `Edit::add`/`rm`/`info` refuse what the reader cannot
    hand back.  `none` = the call returns an error and the edit is unchanged. -/

/-- `Edit::check_str`: non-empty, ASCII, no newline, no trailing carriage return -/
def strOk (s : List Nat) : Bool :=
  !s.isEmpty && s.all (fun b => decide (b < 128) && decide (b ≠ 10)) && decide (s.getLast? ≠ some 13)

/-- `Edit::check_key`: ASCII, not a newline, not one of the action characters `+`/`-` -/
def keyOk (k : Nat) : Bool := decide (k < 128) && decide (k ≠ 10) && decide (k ≠ 43) && decide (k ≠ 45)

def Edit.addStr (e : Edit) (s : List Nat) : Option Edit :=
  if strOk s then some { e with add := insertStr s e.add } else none
def Edit.rmStr (e : Edit) (s : List Nat) : Option Edit :=
  if strOk s then some { e with rm := insertStr s e.rm } else none
def Edit.setInfo (e : Edit) (k : Nat) (v : List Nat) : Option Edit :=
  if keyOk k && strOk v then some { e with info := Blue.Mani.setInfo k v e.info } else none

/-- `Manifest::size` -/
def State.size (s : State) : Nat := (s.strs.map List.length).sum + (s.info.map (·.2.length)).sum

/-- `{:08x}` of a 32-bit value, as ASCII bytes -/
def hexDigit (n : Nat) : Nat := if n < 10 then 48 + n else 87 + n
def hex8 (c : Nat) : List Nat :=
  [hexDigit (c / 268435456 % 16), hexDigit (c / 16777216 % 16), hexDigit (c / 1048576 % 16),
   hexDigit (c / 65536 % 16), hexDigit (c / 4096 % 16), hexDigit (c / 256 % 16),
   hexDigit (c / 16 % 16), hexDigit (c % 16)]

variable (crc : List Nat → Nat)

def crcLine (body : List Nat) : List Nat := hex8 (crc body) ++ body ++ [10]

def SEP : List Nat := [45, 45, 45, 45, 45, 45, 45, 45]

/-- what `_apply` appends for one edit -/
def encodeEdit (e : Edit) : List Nat :=
  (e.rm.flatMap (fun s => crcLine crc (45 :: s))) ++
  (e.add.flatMap (fun s => crcLine crc (43 :: s))) ++
  (e.info.flatMap (fun kv => crcLine crc (kv.1 :: kv.2))) ++
  SEP ++ [10]

/-- `char::to_digit(16)` on a byte -/
def digitVal (b : Nat) : Option Nat :=
  if 48 ≤ b ∧ b ≤ 57 then some (b - 48)
  else if 97 ≤ b ∧ b ≤ 102 then some (b - 87)
  else if 65 ≤ b ∧ b ≤ 70 then some (b - 55)
  else none

def parseDigits : List Nat → Nat → Option Nat
  | [], acc => some acc
  | b :: t, acc => match digitVal b with
    | some d => parseDigits t (acc * 16 + d)
    | none => none

/-- `u32::from_str_radix(_, 16)` on eight bytes: an optional leading `+`, at least one digit -/
def parseHex8 (bs : List Nat) : Option Nat :=
  match bs with
  | 43 :: t => if t = [] then none else parseDigits t 0
  | _ => if bs = [] then none else parseDigits bs 0

inductive LineResult where
  | sep
  | rm (s : List Nat)
  | add (s : List Nat)
  | info (k : Nat) (s : List Nat)
  | corrupt
deriving DecidableEq, Repr

/-- one line of `ManifestIterator::next` (line terminator already removed) -/
def parseLine (line : List Nat) : LineResult :=
  if line.any (fun b => b ≥ 128) then .corrupt
  else if line = SEP then .sep
  else if line.length > 9 then
    match parseHex8 (line.take 8) with
    | none => .corrupt
    | some expected =>
      if crc (line.drop 8) ≠ expected then .corrupt
      else
        let action := (line.drop 8).headD 0
        let payload := line.drop 9
        if action = 43 then .add payload
        else if action = 45 then .rm payload
        else if action = 10 then .corrupt
        else .info action payload
  else .corrupt

/-- split off the first line (`BufRead::lines`: up to `\n`, which is dropped; a final line without
    `\n` is still a line; one trailing `\r` is dropped) -/
def splitLine : List Nat → List Nat × Option (List Nat)
  | [] => ([], none)
  | 10 :: rest => ([], some rest)
  | b :: rest => let r := splitLine rest; (b :: r.1, r.2)

def stripCr (l : List Nat) : List Nat := if l.getLast? = some 13 then l.dropLast else l

/-- read edits: the complete edits, and how reading ended (`true` = corruption error) -/
def readEdits : Nat → List Nat → Edit → List Edit × Bool
  | 0, _, _ => ([], true)
  | _+1, [], _ => ([], false)          -- end of file: an unterminated edit is dropped
  | f+1, bs, cur =>
    let (line, rest) := splitLine bs
    let rest' := rest.getD []
    match parseLine crc (stripCr line) with
    | .corrupt => ([], true)
    | .sep => let r := readEdits f rest' Edit.empty; (cur :: r.1, r.2)
    | .rm s => readEdits f rest' { cur with rm := cur.rm ++ [s] }
    | .add s => readEdits f rest' { cur with add := cur.add ++ [s] }
    | .info k s => readEdits f rest' { cur with info := cur.info ++ [(k, s)] }

end Blue.Mani
