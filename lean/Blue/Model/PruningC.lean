import Blue.Model.Cur
import Blue.Model.Pruning
/-! Pruning cursor (sst/src/pruning_cursor.rs), generic in the child cursor.  `fuel` bounds the
    `loop`s of the Rust code; the theorems show any value above the child's length is enough. -/
namespace Blue.Cursor

structure PruningC {E : Type} (C : Cur E) (K : Type) where
  c : C.σ
  skip : Option K
  /-- `logic_error_prev_not_positioned` was returned -/
  err : Bool

namespace PruningC
variable {E K : Type} [DecidableEq K] (C : Cur E) (cfg : PruneCfg E K) (fuel : Nat)

def scanFwd : Nat → C.σ → Option K → C.σ × Option K
  | 0, c, s => (c, s)
  | f+1, c, s =>
    match C.kv c with
    | none => (c, s)
    | some e =>
      if cfg.tsOk e && cfg.tomb e then scanFwd f (C.next c) (some (cfg.key e))
      else if cfg.tsOk e && (s != some (cfg.key e)) then (c, some (cfg.key e))
      else scanFwd f (C.next c) s

def seekToFirst (p : PruningC C K) : PruningC C K := ⟨C.first p.c, none, p.err⟩
def seekToLast (p : PruningC C K) : PruningC C K := ⟨C.last p.c, none, p.err⟩

def seek (pred : E → Bool) (p : PruningC C K) : PruningC C K :=
  let r := scanFwd C cfg fuel (C.seek pred p.c) none
  ⟨r.1, r.2, p.err⟩

def next (p : PruningC C K) : PruningC C K :=
  let r := scanFwd C cfg fuel (C.next p.c) p.skip
  ⟨r.1, r.2, p.err⟩

def skipBack : Nat → C.σ → Option K → C.σ × Bool
  | 0, c, _ => (c, false)
  | f+1, c, s =>
    match s with
    | none => (c, false)
    | some k =>
      match C.kv c with
      | none => (c, true)
      | some e => if cfg.key e ≠ k then (c, false) else skipBack f (C.prev c) (some k)

def backToRunStart : Nat → C.σ → K → C.σ
  | 0, c, _ => c
  | f+1, c, target =>
    let c' := C.prev c
    match C.kv c' with
    | none => c'
    | some e => if !cfg.tsOk e || cfg.key e ≠ target then c' else backToRunStart f c' target

def fwdToCand : Nat → C.σ → K → C.σ
  | 0, c, _ => c
  | f+1, c, target =>
    match C.kv c with
    | none => c
    | some e => if cfg.tsOk e && cfg.key e = target then c else fwdToCand f (C.next c) target

def prevLoop : Nat → C.σ → Option K → Option (C.σ × Option K)
  | 0, c, s => some (c, s)
  | f+1, c, s =>
    let c1 := C.prev c
    match skipBack C cfg fuel c1 s with
    | (c2, true) => some (c2, none)
    | (c2, false) =>
      match C.kv c2 with
      | none => some (c2, none)
      | some e =>
        if !cfg.tsOk e then prevLoop f c2 (some (cfg.key e))
        else
          let target := cfg.key e
          let c3 := backToRunStart C cfg fuel c2 target
          let c4 := if (C.kv c3).isNone then C.next c3 else c3
          let c5 := fwdToCand C cfg fuel c4 target
          match C.kv c5 with
          | none => none
          | some e5 =>
            if !cfg.tomb e5 then some (c5, some (cfg.key e5))
            else prevLoop f c5 (some (cfg.key e5))

def prev (p : PruningC C K) : PruningC C K :=
  let s := if (C.kv p.c).isNone then none else p.skip
  match prevLoop C cfg fuel fuel p.c s with
  | some (c, s) => ⟨c, s, p.err⟩
  | none => { p with err := true }

def kv (p : PruningC C K) : Option E := C.kv p.c

def new (c : C.σ) : PruningC C K := ⟨C.first c, none, false⟩

/-- the pruning cursor is itself a cursor -/
def cur : Cur E where
  σ := PruningC C K
  first := seekToFirst C
  last := seekToLast C
  next := next C cfg fuel
  prev := prev C cfg fuel
  seek := seek C cfg fuel
  kv := kv C
  ok := fun p => !p.err && C.ok p.c

end PruningC
end Blue.Cursor
