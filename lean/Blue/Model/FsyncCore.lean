/-! `FsyncCoalescingCore` (sst/src/log.rs): the fsync half of `ConcurrentLogBuilder::append`.

    Offsets are positions in the log in any strictly monotone numbering (the code counts the
    cumulative payload bytes of the write core, `written`; the correspondence driver uses the file
    offset at which the member's frame ends: the two orders agree because every batch is non-empty).
    `written` is the largest offset whose `write` has returned, `durable` the largest offset covered
    by an `fdatasync` that has RETURNED SUCCESSFULLY (a ghost: the code has no such field; the
    harness's probe measures it).

    Two machines:
    * `step`: one `work` call as a single event (`fdatasync` issued and returned at once) with the
      outcome of the system call as a parameter;
    * `rstep`: the same core with the system call split into its issue (`enter`, when the batch does
      not take the `synced >= acc` shortcut) and its return (`ret ok`), so that writes of other
      callers land between the two, and a FAILED call (`ret false`) is a transition of its own:
      `synced` does not advance, `durable` does not advance, every member of the batch is answered
      `false` (`ConcurrentLogBuilder::append` turns that into `Err(corruption_fsync_failed)`).
      Nothing else happens on a failure: the `poison` flag that `append` sets is never read, so the
      next batch is handled like any other (it issues its own `fdatasync`, because `synced` did not
      move). -/
namespace Blue.FsyncCore

structure St where
  synced : Nat
  written : Nat
  durable : Nat

inductive Ev where
  /-- a write core batch finished: the log now extends to `w` -/
  | wrote (w : Nat)
  /-- the fsync core is given a batch of offsets (each from a caller whose write has returned) and
      the `fdatasync`, if it is issued, succeeds or fails -/
  | work (inputs : List Nat) (ok : Bool)

def acc (inputs : List Nat) : Nat := inputs.foldl max 0

/-- the state after the event, and the answer every member of the batch receives -/
def step (s : St) : Ev → St × Option Bool
  | .wrote w => ({ s with written := max s.written w }, none)
  | .work inputs ok =>
    if (∀ i ∈ inputs, i ≤ s.written) then
      if s.synced ≥ acc inputs then (s, some true)
      else if ok then ({ s with synced := acc inputs, durable := s.written }, some true)
      else (s, some false)
    else (s, none)

/-! ### the system call as two events -/

/-- an `fdatasync` in flight: the accumulator of the batch that issued it, `written` at the moment
    it was issued (all it can promise), the members waiting for it -/
structure Flight where
  acc : Nat
  len : Nat
  inputs : List Nat
  deriving DecidableEq

structure RSt where
  synced : Nat
  written : Nat
  durable : Nat
  flight : Option Flight

inductive REv where
  /-- a write core batch finished: the log now extends to `w` -/
  | wrote (w : Nat)
  /-- `work` is entered with a batch (the queue holds the core's mutex: at most one at a time) -/
  | enter (inputs : List Nat)
  /-- the system call of the batch in flight returns: success or failure -/
  | ret (ok : Bool)

/-- who is answered, and what -/
structure Ans where
  inputs : List Nat
  ok : Bool
  deriving DecidableEq

def init : RSt := ⟨0, 0, 0, none⟩

def rstep (s : RSt) : REv → RSt × Option Ans
  | .wrote w => ({ s with written := max s.written w }, none)
  | .enter inputs =>
    match s.flight with
    | some _ => (s, none)
    | none =>
      if (∀ i ∈ inputs, i ≤ s.written) then
        if s.synced ≥ acc inputs then (s, some ⟨inputs, true⟩)
        else ({ s with flight := some ⟨acc inputs, s.written, inputs⟩ }, none)
      else (s, none)
  | .ret ok =>
    match s.flight with
    | none => (s, none)
    | some f =>
      if ok then ({ s with synced := f.acc, durable := max s.durable f.len, flight := none }, some ⟨f.inputs, true⟩)
      else ({ s with flight := none }, some ⟨f.inputs, false⟩)

def run (evs : List REv) : RSt := evs.foldl (fun s e => (rstep s e).1) init

/-- the core of seeded change C02r3-3: `self.synced = acc` BEFORE the system call, whatever it
    returns ("everything up to acc has now been handed to the disk") -/
def rstepEarly (s : RSt) : REv → RSt × Option Ans
  | .wrote w => ({ s with written := max s.written w }, none)
  | .enter inputs =>
    match s.flight with
    | some _ => (s, none)
    | none =>
      if (∀ i ∈ inputs, i ≤ s.written) then
        if s.synced ≥ acc inputs then (s, some ⟨inputs, true⟩)
        else ({ s with synced := acc inputs, flight := some ⟨acc inputs, s.written, inputs⟩ }, none)
      else (s, none)
  | .ret ok =>
    match s.flight with
    | none => (s, none)
    | some f =>
      if ok then ({ s with durable := max s.durable f.len, flight := none }, some ⟨f.inputs, true⟩)
      else ({ s with flight := none }, some ⟨f.inputs, false⟩)

def runEarly (evs : List REv) : RSt := evs.foldl (fun s e => (rstepEarly s e).1) init

end Blue.FsyncCore
