import Blue.Model.Kvs
/-! # A sequential history model of the store over the component representation of `Blue.Kvs`

The state is the dumped-state record `Blue.Kvs.KState` the point-read model `Blue.Kvs.kvsLoad`
runs on (memtable, optional immutable memtable, level 0 as the version holds it, deeper levels),
the two counters of `KeyValueStoreState` (`seq_no`, `visible_seq_no`) and — because a version of
the existing model is its `(key, timestamp)` — a payload map `(key, timestamp) ↦ value | tombstone`.

Operations (each one a *completed* call; reads happen between operations):

* `write batch` — `KeyValueStore::write` (`put`/`del` are one-entry batches): a batch naming a key
  twice is rejected before anything happens (the code returns `logic_error`); otherwise
  `seq_no += 1`, every entry goes into the memtable with that timestamp, `visible_seq_no := seq_no`.
* `rollover` — the head of the `_memtable_thread` loop body: only when there is no immutable
  memtable, `imm := mem`, `mem := fresh`, and `seq_no += 1` (the number names the new log;
  `visible_seq_no` stays).
* `flush` — the rest of that loop body, as one step: the immutable memtable's versions become a
  level-0 file (`_ingest`), then `imm := None`.  (Between the two a snapshot sees the versions
  twice; that window is the subject of `Blue.Rollover`, not of this sequential model.)  The file
  joins `level0` and is *found* where `Version::load` looks: `Blue.Kvs.l0Order` sorts level 0 by
  newest timestamp, descending.  Deviation, changing no read: an EMPTY immutable memtable is cleared
  without a file (the code would ingest an empty table).
* `compact l0' levels'` — the tree is replaced by `(l0', levels')`; which replacements are
  compactions is the predicate `CompactionOk` below, a list of hypotheses in the shape of the
  existing step theorems (`Blue.Spec.compaction_preserves`): a CLOSED selection `pre` of the tree's
  components in search order, outputs holding exactly the inputs' versions, placed below the kept
  components of `pre` (possibly to the left of kept files of the output level they share no key
  with — key order inside the output level).  A trivial move is the instance `outs = inputs`.

The abstract specification is a plain map `key ↦ (timestamp, payload)` changed by accepted writes
only (`specStep`), and its timestamp-free projection `lastWrite`, a function of the operation list
alone. -/
namespace Blue.StoreHist
open Blue.Spec Blue.Kvs

/-- `some v`: a put of `v`; `none`: a tombstone -/
abbrev Payload := Option Nat

structure HState where
  st : KState
  /-- `state.seq_no` -/
  seq : Nat
  /-- `state.visible_seq_no`: the timestamp reads are made at -/
  vis : Nat
  /-- payload of version `(key, timestamp)`; `none`: no such version was ever written -/
  pay : Nat → Nat → Option Payload

def init : HState := ⟨⟨[], none, [], []⟩, 0, 0, fun _ _ => none⟩

inductive Op where
  | write (batch : List (Nat × Payload))
  | rollover
  | flush
  | compact (l0' : List KFile) (levels' : List (List KFile))

def maxTs (c : List (Ver Nat)) : Nat := c.foldr (fun v m => max v.2 m) 0
def minKey (c : List (Ver Nat)) : Nat := c.foldr (fun v m => min v.1 m) (c.headD (0, 0)).1
def maxKey (c : List (Ver Nat)) : Nat := c.foldr (fun v m => max v.1 m) 0

/-- the table a flush writes: metadata as `SstMetadata` has them -/
def flushFile (i : List (Ver Nat)) : KFile := ⟨minKey i, maxKey i, maxTs i, i⟩

/-- the tree's components in search order: `allComps s = memComps s ++ treeComps s` -/
def treeComps (s : KState) : List (List (Ver Nat)) :=
  l0Comps s ++ (tLevels s).flatMap (fun l => l.map (·.vers))

def batchOk (b : List (Nat × Payload)) : Bool := decide (b.map (·.1)).Nodup

def apply (h : HState) : Op → HState
  | .write b =>
    if batchOk b then
      { st := { h.st with mem := b.map (fun e => (e.1, h.seq + 1)) ++ h.st.mem }
        seq := h.seq + 1
        vis := h.seq + 1
        pay := fun k t => if t = h.seq + 1 then List.lookup k b else h.pay k t }
    else h
  | .rollover =>
    match h.st.imm with
    | none => { h with st := { h.st with mem := [], imm := some h.st.mem }, seq := h.seq + 1 }
    | some _ => h
  | .flush =>
    match h.st.imm with
    | none => h
    | some [] => { h with st := { h.st with imm := none } }
    | some (v :: i) => { h with st := { h.st with imm := none, l0 := flushFile (v :: i) :: h.st.l0 } }
  | .compact l0' levels' => { h with st := { h.st with l0 := l0', levels := levels' } }

/-- I1 of a state: every level below level 0 sorted with at most touching ranges, files well-formed -/
def I1 (s : KState) : Prop := ∀ l ∈ tLevels s, LevelSorted l ∧ ∀ f ∈ l, f.Wf

/-- **what a compaction step owes** (`s` before, `s'` after).  `pre`: the tree's components in
    search order down to the output level, tagged "is an input"; `post`: the deeper levels.  The
    kept components of `pre` split into `a ++ x`; the outputs go between them, and `x` (kept files of
    the output level to the right of the compacted range) shares no key with the outputs. -/
inductive CompactionOk (s s' : KState) : Prop where
  | mk (pre : Tagged Nat) (post outs a x : List (List (Ver Nat)))
      (hmem : s'.mem = s.mem) (himm : s'.imm = s.imm)
      (hsplit : treeComps s = pre.map (·.2) ++ post)
      (hclosed : Closed pre)
      (hsame : ∀ e, e ∈ outs.flatten ↔ e ∈ (inputs pre).flatten)
      (houts : NewerAbove outs)
      (hkept : kept pre = a ++ x)
      (hdis : ∀ c ∈ x, ∀ d ∈ outs, Disjoint c d)
      (hplace : treeComps s' = a ++ outs ++ x ++ post)
      (hl0 : ∀ g ∈ s'.l0, g ∈ s.l0)
      (hI1 : I1 s')

def OpOk (h : HState) : Op → Prop
  | .compact l0' levels' => CompactionOk h.st { h.st with l0 := l0', levels := levels' }
  | _ => True

/-- every compaction step of the history meets its obligations on the state it is applied to -/
def Valid : HState → List Op → Prop
  | _, [] => True
  | h, op :: ops => OpOk h op ∧ Valid (apply h op) ops

def run (h : HState) (ops : List Op) : HState := ops.foldl apply h

/-! ## the abstract specification -/

abbrev SpecMap := Nat → Option (Nat × Payload)

/-- last write wins; `ts` is the sequence number the write was given; nothing else touches the map -/
def specStep (m : SpecMap) (ts : Nat) : Op → SpecMap
  | .write b =>
    if batchOk b then fun k => match List.lookup k b with
      | some p => some (ts, p)
      | none => m k
    else m
  | _ => m

def runSpec : HState → SpecMap → List Op → SpecMap
  | _, m, [] => m
  | h, m, op :: ops => runSpec (apply h op) (specStep m (h.seq + 1) op) ops

/-- the specification after `ops` from the empty store -/
def spec (ops : List Op) : SpecMap := runSpec init (fun _ => none) ops

def valStep (m : Nat → Option Payload) : Op → (Nat → Option Payload)
  | .write b =>
    if batchOk b then fun k => match List.lookup k b with
      | some p => some p
      | none => m k
    else m
  | _ => m

/-- the payload of the last accepted write to each key — a function of the operation list alone -/
def lastWrite (ops : List Op) : Nat → Option Payload := ops.foldl valStep (fun _ => none)

/-- what `KeyValueStore::load` answers, as payload: the version `kvsLoad` finds at the published
    sequence number, looked up in the payload map.  `none`: no version (`Ok(None)`, not a
    tombstone); `some none`: a tombstone (`Ok(None)`, `is_tombstone`); `some (some v)`: `Ok(Some v)` -/
def read (h : HState) (k : Nat) : Option Payload :=
  (kvsLoad h.st k h.vis).bind fun v => h.pay v.1 v.2

end Blue.StoreHist
