/-! The write-ahead log's framing (sst/src/log.rs): `_append` / `append_split` / `true_up` and
    `LogIterator::{next_header, next_frame, next, true_up}`.  The block size `B`, the header codec
    and the CRC are parameters; `H` is `HEADER_MAX_SIZE`.

    The reader's `true_up` (after a zero header-length byte, and after a `FIRST` frame) reads the
    bytes up to the block boundary and refuses anything but zeros (`padZero`; the repair of D-11:
    as found it sought to the boundary without looking, see `Blue.Damage.nextHeaderAsFound`). -/
namespace Blue.Log

structure Hdr where
  size : Nat
  disc : Nat
  crc : Nat
deriving DecidableEq, Repr

def WHOLE : Nat := 1
def FIRST : Nat := 2
def SECOND : Nat := 3

structure Params where
  B : Nat
  H : Nat
  tableFull : Nat
  encH : Hdr → List Nat
  decH : List Nat → Option Hdr
  crc : List Nat → Nat

variable (P : Params)

def nextBoundary (off : Nat) : Nat := (off / P.B + 1) * P.B
def trueUp (off : Nat) : Nat := if off % P.B = 0 then off else nextBoundary P off

def slice (file : List Nat) (off n : Nat) : List Nat := (file.drop off).take n

/-- header-length byte, header, payload -/
def frame (disc : Nat) (payload : List Nat) : List Nat :=
  let h := P.encH ⟨payload.length, disc, P.crc payload⟩
  h.length :: (h ++ payload)

def zeros (n : Nat) : List Nat := List.replicate n 0

/-- what `_append(buffer)` writes when `pos` bytes have been written (fuel 2: the padding case
    re-enters `_append` once, at a block boundary) -/
def appendAt : Nat → Nat → List Nat → List Nat
  | 0, _, _ => []
  | f+1, pos, buf =>
    let whole := frame P WHOLE buf
    let nb := nextBoundary P pos
    if pos + whole.length > nb then
      -- `append_split`
      let roundup := nb - pos
      if roundup ≤ P.H then zeros roundup ++ appendAt f nb buf
      else
        let firstBytes := roundup - P.H
        let f1 := frame P FIRST (buf.take firstBytes)
        f1 ++ zeros (nb - (pos + f1.length)) ++ frame P SECOND (buf.drop firstBytes)
    else whole

inductive R (α : Type) where
  | ok (a : α)
  | eof
  | err
deriving Repr

/-- the reader's `true_up` from `off` to the boundary `t`: it reads the `t - off` bytes it is about
    to skip — fewer if the file ends first, which is not an error — and every byte it got must be
    the zero the writer's `true_up` pads with (`corruption-true-up-padding-not-zero` otherwise) -/
def padZero (file : List Nat) (off t : Nat) : Bool := (slice file off (t - off)).all (· == 0)

/-- `next_header`: skips padding, returns the header and the offset after it -/
def nextHeader (file : List Nat) : Nat → Nat → R (Hdr × Nat)
  | 0, _ => .err
  | f+1, off =>
    match file[off]? with
    | none => .eof
    | some hsz =>
      if hsz = 0 then
        let t := trueUp P (off + 1)
        if t - (off + 1) > P.H then .err
        else if !padZero file (off + 1) t then .err
        else nextHeader file f t
      else if hsz > P.H then .err
      else if off + 1 + hsz > file.length then .err
      else match P.decH (slice file (off + 1) hsz) with
        | none => .err
        | some h => if h.size > P.tableFull then .err else .ok (h, off + 1 + hsz)

/-- `next_frame`: header, payload, checksum -/
def nextFrame (file : List Nat) (fuel off : Nat) : R (Hdr × List Nat × Nat) :=
  match nextHeader P file fuel off with
  | .eof => .eof
  | .err => .err
  | .ok (h, off') =>
    if off' + h.size > file.length then .err
    else
      let payload := slice file off' h.size
      if P.crc payload ≠ h.crc then .err else .ok (h, payload, off' + h.size)

/-- `LogIterator::next` up to the re-assembled batch buffer -/
def nextBatch (file : List Nat) (fuel off : Nat) : R (List Nat × Nat) :=
  match nextFrame P file fuel off with
  | .eof => .eof
  | .err => .err
  | .ok (h, p, off') =>
    if h.disc = WHOLE then .ok (p, off')
    else if h.disc = FIRST then
      let t := trueUp P off'
      if t - off' > P.H then .err
      else if !padZero file off' t then .err
      else match nextFrame P file fuel t with
        | .ok (h2, p2, off'') => if h2.disc = SECOND then .ok (p ++ p2, off'') else .err
        | _ => .err
    else .err

/-- everything a sequence of `append`s writes, starting at `pos` -/
def writeAll : List (List Nat) → Nat → List Nat
  | [], _ => []
  | b :: bs, pos => appendAt P 2 pos b ++ writeAll bs (pos + (appendAt P 2 pos b).length)

/-- drain the iterator: the batch buffers, or `none` on an error -/
def readAll (file : List Nat) : Nat → Nat → Option (List (List Nat))
  | 0, _ => none
  | f+1, off =>
    match nextBatch P file 2 off with
    | .eof => some []
    | .err => none
    | .ok (b, off') => (readAll file f off').map (b :: ·)

/-- drain the iterator, keeping what was delivered before an error: the batches, and whether
    reading ended with an error -/
def readSome (file : List Nat) : Nat → Nat → List (List Nat) × Bool
  | 0, _ => ([], true)
  | f+1, off =>
    match nextBatch P file 2 off with
    | .eof => ([], false)
    | .err => ([], true)
    | .ok (b, off') => let r := readSome file f off'; (b :: r.1, r.2)

end Blue.Log
