/-! Wire level of buffertk / prototk: varints (`v64`), tags, the field iterator.
    Bytes are `Nat`s below 256. -/
namespace Blue.Wire

def U64 : Nat := 18446744073709551616
def U32MAX : Nat := 4294967295

/-- `v64::pack` -/
def encVarint (x : Nat) : List Nat :=
  if x < 128 then [x] else (x % 128 + 128) :: encVarint (x / 128)
decreasing_by omega

/-- `v64::unpack` (the ten-way fast path and `unpack_slow` agree on this): at most ten bytes, the
    continuation bit is `≥ 128`; bits beyond 64 are dropped as `<<` drops them -/
def decVarintAux : Nat → Nat → Nat → List Nat → Option (Nat × List Nat)
  | 0, _, _, _ => none
  | _+1, _, _, [] => none
  | f+1, shl, acc, b :: rest =>
    if b < 128 then some ((acc + b * 2 ^ shl) % U64, rest)
    else decVarintAux f (shl + 7) (acc + (b - 128) * 2 ^ shl) rest

def decVarint (bs : List Nat) : Option (Nat × List Nat) := decVarintAux 10 0 0 bs

inductive WT where
  | varint | sixtyFour | lengthDelimited | thirtyTwo
deriving DecidableEq, Repr

def WT.bits : WT → Nat
  | .varint => 0 | .sixtyFour => 1 | .lengthDelimited => 2 | .thirtyTwo => 5

def WT.ofBits : Nat → Option WT
  | 0 => some .varint | 1 => some .sixtyFour | 2 => some .lengthDelimited | 5 => some .thirtyTwo
  | _ => none

/-- `FieldNumber::new` -/
def validFieldNumber (f : Nat) : Bool := 1 ≤ f && f ≤ 536870911 && !(19000 ≤ f && f ≤ 19999)

structure Tag where
  num : Nat
  wt : WT
deriving DecidableEq, Repr

def encTag (t : Tag) : List Nat := encVarint (t.num * 8 + t.wt.bits)

/-- `Tag::unpack` -/
def decTag (bs : List Nat) : Option (Tag × List Nat) :=
  match decVarint bs with
  | none => none
  | some (v, rest) =>
    if v > U32MAX then none
    else if !validFieldNumber (v / 8) then none
    else match WT.ofBits (v % 8) with
      | none => none
      | some wt => some (⟨v / 8, wt⟩, rest)

/-- one step of `FieldIterator::next`: the tag and the slice handed to the field's unpacker.
    As in the code, the slice of a varint or length-delimited field is cut at the *canonical*
    size of the varint that was read. -/
def fieldStep (bs : List Nat) : Option ((Tag × List Nat) × List Nat) :=
  match decTag bs with
  | none => none
  | some (tag, buf) =>
    match tag.wt with
    | .varint =>
      match decVarint buf with
      | none => none
      | some (x, rest) => some ((tag, buf.take (encVarint x).length), rest)
    | .sixtyFour => if buf.length < 8 then none else some ((tag, buf.take 8), buf.drop 8)
    | .lengthDelimited =>
      match decVarint buf with
      | none => none
      | some (x, rest) =>
        if rest.length < x then none
        else some ((tag, buf.take ((encVarint x).length + x)), rest.drop x)
    | .thirtyTwo => if buf.length < 4 then none else some ((tag, buf.take 4), buf.drop 4)

/-- the whole iteration: the fields seen, and whether the iterator stopped on an error -/
def fields : Nat → List Nat → List (Tag × List Nat) × Bool
  | 0, _ => ([], true)
  | _+1, [] => ([], false)
  | f+1, bs =>
    match fieldStep bs with
    | none => ([], true)
    | some (fld, rest) => let r := fields f rest; (fld :: r.1, r.2)

/-- `bytes::unpack` / the length prefix of `message<M>::unpack` -/
def decBytes (bs : List Nat) : Option (List Nat × List Nat) :=
  match decVarint bs with
  | none => none
  | some (n, rest) => if rest.length < n then none else some (rest.take n, rest.drop n)

def encBytes (b : List Nat) : List Nat := encVarint b.length ++ b

end Blue.Wire
