/-! Who keeps the nodes of a `skipfree::SkipList` alive: the list handle and every iterator made from
    it share the ownership of all nodes (`Arc<Head>`); the nodes are released when the last of
    them is dropped ("an iterator remains valid for as long as it is held"). -/
namespace Blue.SkipLife

structure St where
  /-- nodes allocated so far, the head included -/
  nodes : Nat := 1
  listHeld : Bool := true
  /-- one flag per iterator ever made: still held? -/
  iters : List Bool := []
deriving DecidableEq, Repr

inductive Op where
  | insert
  | iter
  /-- `clone()` of iterator `j` -/
  | cloneIter (j : Nat)
  | dropList
  | dropIter (j : Nat)
  /-- dereference through iterator `j` (`seek_to_first`, `key`, `next`) -/
  | use (j : Nat)
deriving DecidableEq, Repr

def holders (s : St) : Nat := (if s.listHeld then 1 else 0) + (s.iters.filter id).length

/-- nodes not yet released -/
def live (s : St) : Nat := if holders s = 0 then 0 else s.nodes

def held (s : St) (j : Nat) : Bool := s.iters.getD j false

/-- an op is refused (`none`) when it goes through a handle that is not held -/
def step (s : St) : Op → Option St
  | .insert => if s.listHeld then some { s with nodes := s.nodes + 1 } else none
  | .iter => if s.listHeld then some { s with iters := s.iters ++ [true] } else none
  | .cloneIter j => if held s j then some { s with iters := s.iters ++ [true] } else none
  | .dropList => if s.listHeld then some { s with listHeld := false } else none
  | .dropIter j => if held s j then some { s with iters := s.iters.set j false } else none
  | .use j => if held s j then some s else none

end Blue.SkipLife
