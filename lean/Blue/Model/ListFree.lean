/-! `listfree::List::prepend` as a small-step transition system: one step per atomic access
    (sequentially consistent interleaving of the threads' accesses). -/
namespace Blue.ListFree

inductive PC (D : Type) where
  | idle
  /-- `Box::leak(Box::new(Node::new(data)))` is next -/
  | alloc (d : D)
  /-- `head.load(Acquire)` is next -/
  | load (node : Nat)
  /-- `node.set_next(head)` is next -/
  | setNext (node : Nat) (head : Option Nat)
  /-- `head.compare_exchange(head, node)` is next -/
  | cas (node : Nat) (head : Option Nat)

structure Node (D : Type) where
  data : D
  next : Option Nat

structure St (D : Type) where
  heap : List (Node D)
  head : Option Nat
  pcs : Nat → PC D
  /-- ghost: data of the successful prepends, newest first -/
  pushed : List D

variable {D : Type}

def setPc (pcs : Nat → PC D) (i : Nat) (pc : PC D) : Nat → PC D := fun j => if j = i then pc else pcs j

/-- thread `i` takes its next step -/
def step (s : St D) (i : Nat) : St D :=
  match s.pcs i with
  | .idle => s
  | .alloc d => { s with heap := s.heap ++ [⟨d, none⟩], pcs := setPc s.pcs i (.load s.heap.length) }
  | .load n => { s with pcs := setPc s.pcs i (.setNext n s.head) }
  | .setNext n h =>
    match s.heap[n]? with
    | some nd => { s with heap := s.heap.set n { nd with next := h }, pcs := setPc s.pcs i (.cas n h) }
    | none => s
  | .cas n h =>
    if s.head = h then
      match s.heap[n]? with
      | some nd => { s with head := some n, pcs := setPc s.pcs i .idle, pushed := nd.data :: s.pushed }
      | none => s
    else { s with pcs := setPc s.pcs i (.load n) }

/-- a client calls `prepend(d)` on an idle thread -/
def call (s : St D) (i : Nat) (d : D) : St D :=
  match s.pcs i with
  | .idle => { s with pcs := setPc s.pcs i (.alloc d) }
  | _ => s

inductive Ev (D : Type) where
  | call (i : Nat) (d : D)
  | step (i : Nat)

def apply (s : St D) : Ev D → St D
  | .call i d => call s i d
  | .step i => step s i

def init : St D := ⟨[], none, fun _ => .idle, []⟩

/-- what `iter()` yields from a given start pointer (fuel = heap size) -/
def walk (heap : List (Node D)) : Nat → Option Nat → List D
  | 0, _ => []
  | _, none => []
  | f+1, some p => match heap[p]? with
    | some nd => nd.data :: walk heap f nd.next
    | none => []

end Blue.ListFree
