/-! `scrunch::binary_search::partition_by` and the `BitVector` trait's reference semantics and
    default `select` / `rank0` / `select0`. -/
namespace Blue.BitVec

/-- `partition_by(first, last, pred)`: `binary_search_by` with `Less` for `true`, `Greater` for `false` -/
def partitionBy (pred : Nat → Bool) : Nat → Nat → Nat → Nat
  | 0, l, _ => l
  | f+1, l, r =>
    if l < r then
      let mid := l + (r - l) / 2
      if pred mid then partitionBy pred f (mid + 1) r else partitionBy pred f l mid
    else l

/-- `rank(x)`: ones among the first `x` bits, defined for `x ≤ len` -/
def rank (bits : List Bool) (x : Nat) : Option Nat :=
  if x ≤ bits.length then some ((bits.take x).count true) else none

def access (bits : List Bool) (x : Nat) : Option Bool := bits[x]?

/-- the trait's default `select` -/
def select (bits : List Bool) (x : Nat) : Option Nat :=
  let left := partitionBy (fun mid => decide ((rank bits mid).getD 0 < x)) (bits.length + 1) 0 bits.length
  if rank bits left = some x then some left else none

def rank0 (bits : List Bool) (x : Nat) : Option Nat := (rank bits x).map (fun r => x - r)

def select0 (bits : List Bool) (x : Nat) : Option Nat :=
  let left := partitionBy (fun mid => decide ((rank0 bits mid).getD 0 < x)) (bits.length + 1) 0 bits.length
  if rank0 bits left = some x then some left else none

end Blue.BitVec
