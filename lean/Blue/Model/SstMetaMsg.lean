import Blue.Model.ProtoMsg
import Blue.Model.SstBuild
/-! `SstMetadata` (sst/src/lib.rs:1306-1326) as a prototk message of the C15 schema language, and
    `SstMultiBuilder::split_hint` (lib.rs:2127-2136).

    ```
    #[derive(Clone, Eq, Message, Ord, PartialEq, PartialOrd)]
    pub struct SstMetadata {
        #[prototk(1, bytes32)] pub setsum: [u8; 32],
        #[prototk(2, bytes)]   pub first_key: Vec<u8>,
        #[prototk(3, bytes)]   pub last_key: Vec<u8>,
        #[prototk(4, uint64)]  pub smallest_timestamp: u64,
        #[prototk(5, uint64)]  pub biggest_timestamp: u64,
        #[prototk(6, uint64)]  pub file_size: u64,
    }
    ```
    The field numbers are the `MD_*` constants of `Blue/Model/SstBuild.lean` (regenerated from the
    source and tied in `Blue/Proofs/ConstsTieC10.lean`). -/
namespace Blue.SstMetaMsg
open Blue.Wire Blue.ProtoMsg Blue.Sst Blue.Block

/-- the schema of `SstMetadata`, field by field as declared -/
def metaSchema : Msg :=
  .struct [.mk MD_SETSUM .one (.scalar (.bytesN 32)), .mk MD_FIRST .one (.scalar .bytes),
           .mk MD_LAST .one (.scalar .bytes), .mk MD_SMALLEST .one (.scalar .uint64),
           .mk MD_BIGGEST .one (.scalar .uint64), .mk MD_FILE_SIZE .one (.scalar .uint64)]

/-- a metadata value as a value of the schema language -/
def metaVal (m : Metadata) : Val :=
  .struct [.bytes m.setsum, .bytes m.firstKey, .bytes m.lastKey, .int m.smallest, .int m.biggest, .int m.fileSize]

/-- and back (what the generated `unpack` assigns to the struct's fields) -/
def ofVal : Val → Option Metadata
  | .struct [.bytes s, .bytes f, .bytes l, .int a, .int b, .int c] => some ⟨s, f, l, a.toNat, b.toNat, c.toNat⟩
  | _ => none

/-- `stack_pack(SstMetadata).to_vec()` through the derive-macro interpreter of C15 -/
def packMeta (m : Metadata) : List Nat := packMsg 1 metaSchema (metaVal m)

/-- `SstMetadata::unpack` through the derive-macro interpreter of C15 (`none` in the second
    position cannot happen: the interpreter returns values of the schema's shape) -/
def unpackMeta (bs : List Nat) : Except Err (Option Metadata) :=
  match unpackMsg 1 metaSchema bs with
  | .error e => .error e
  | .ok (v, _) => .ok (ofVal v)

end Blue.SstMetaMsg

/-! ## `SstMultiBuilder` with `split_hint` -/
namespace Blue.Sst
open Blue.Block

/-- `SstMultiBuilder::split_hint` (lib.rs:2127): if a builder is open and its approximate size has
    reached `TABLE_FULL_SIZE` or `options.minimum_file_size`, it is sealed (the next accepted entry
    starts a new file); otherwise nothing happens.  `minSize` is `SstOptions::minimum_file_size`
    (not a field of the model's `SstOpts`). -/
def MB.splitHint (minSize : Nat) (m : MB) : MB :=
  match m.cur with
  | some s =>
    if s.approxSize ≥ TABLE_FULL_SIZE ∨ s.approxSize ≥ minSize then
      { m with sealed := m.sealed ++ [s], cur := none } else m
  | none => m

/-- a call on the multi-builder: an attempt (`put` / `del`) or a split hint -/
inductive MCall where
  | att (e : KV)
  | hint

/-- a run of calls; one answer per *attempt* (a hint answers `Ok(())` always: the seal's I/O
    errors are outside the model) -/
def MB.runCalls (o : SstOpts) (minSize : Nat) : MB → List MCall → List (Option BuildErr) × MB
  | m, [] => ([], m)
  | m, .att e :: cs =>
    let r := m.put o e
    let rest := MB.runCalls o minSize r.2 cs
    (r.1 :: rest.1, rest.2)
  | m, .hint :: cs => MB.runCalls o minSize (MB.splitHint minSize m) cs

/-- the attempts of a run of calls, in order -/
def attemptsOf : List MCall → List KV
  | [] => []
  | .att e :: cs => e :: attemptsOf cs
  | .hint :: cs => attemptsOf cs

end Blue.Sst
