import Blue.Model.BitVec
/-! `scrunch::wavelet_tree::prefix::WaveletTree<E: Encoder>` (scrunch/src/wavelet_tree/prefix.rs):
    the wavelet tree over a prefix code that stores the psi function of the compressed text index.

    What is modelled, following the code:
    * `construct` (translate the text through `Encoder::encode`, then `construct_recursive`),
      `len`, `access` (`recursive_access`), `rank_q` (`recursive_rank`), `select_q`
      (`recursive_select`), with their `None`/`Err` outcomes.
    * The encoder is a PARAMETER: a code book, the list of `(symbol, code, len)` as
      `Encoder::encode(symbol) = Some((code, len))` returns them.  Codes are consumed least
      significant bit first (`code & 1` decides left/right at the root, then `code >> 1`).
      `encode` = look the symbol up in the book; `decode(e, sz)` = the symbol of the entry whose
      code VALUE is `e` (`HuffmanEncoder::decode` ignores `sz` and binary-searches the code values).

    What is NOT modelled:
    * The Huffman construction (`HuffmanEncoder::construct`: `BinaryHeap` with `f64` weights,
      canonical code assignment).  The correspondence run hands the real code book to the model.
    * Each node's `rrr::BitVector` is modelled as its decoded `List Bool`, answered by
      `Blue.BitVec.rank/select/select0` (other modules prove the encodings answer like these) and
      `accessRank` below (`rrr`'s `access_rank_at`: `None` for `index >= len`).
    * Byte offsets, the `nodes` index vector (`load_node_and_bit_vector(offset)`: offset `0` =
      no node; here `Tree.absent`), protobuf framing, `Root`, `Capstone`, `unpack`.  A node is
      its bit vector and its two children.  (`construct_recursive` always emits a node for the
      root, also for the empty text.)
    * Machine widths: codes are `u32`, lengths `u8` in the code; here `Nat`.  The model agrees
      with the code for books whose lengths are at most 32 (so `1 << sz` never overflows).
    * `symbol_rank_ranges`. -/
namespace Blue.Wavelet

/-- one code book entry `(symbol, code, len)` -/
abbrev Entry := Nat × Nat × Nat
abbrev CodeBook := List Entry
/-- `(code, len)` -/
abbrev Code := Nat × Nat

/-- `Encoder::encode` -/
def encode (cb : CodeBook) (q : Nat) : Option Code :=
  match cb.find? (fun en => en.1 == q) with
  | some en => some en.2
  | none => none

/-- `Encoder::decode(e, sz)`: the size is ignored (as `HuffmanEncoder::decode` does) -/
def decode (cb : CodeBook) (e : Nat) (_sz : Nat) : Option Nat :=
  match cb.find? (fun en => en.2.1 == e) with
  | some en => some en.1
  | none => none

inductive Tree where
  | absent : Tree
  | node (bits : List Bool) (left right : Tree) : Tree
  deriving Repr, DecidableEq

structure WT where
  cb : CodeBook
  length : Nat
  root : Tree
  deriving Repr, DecidableEq

/-- `code & 1 == 1` -/
def isRight (c : Code) : Bool := c.1 &&& 1 == 1

/-- `(code >> 1, len - 1)` -/
def next (c : Code) : Code := (c.1 >>> 1, c.2 - 1)

/-- the unfinished symbols that go left, shifted (the first `left_count` entries of `scratch`) -/
def leftSyms (syms : List Code) : List Code :=
  (syms.filter (fun c => decide (1 < c.2) && !isRight c)).map next

/-- the unfinished symbols that go right, shifted -/
def rightSyms (syms : List Code) : List Code :=
  (syms.filter (fun c => decide (1 < c.2) && isRight c)).map next

/-- the two `LogicError` conditions of `construct_recursive` -/
def bad (syms : List Code) : Bool :=
  syms.any (fun c => c.2 == 0)
  || (syms.any (fun c => !isRight c && c.2 == 1) && !(leftSyms syms).isEmpty)
  || (syms.any (fun c => isRight c && c.2 == 1) && !(rightSyms syms).isEmpty)

/-- `construct_recursive`; `none` = `Err(LogicError)` (or fuel exhausted: `construct` gives more
    fuel than the longest code) -/
def build : Nat → List Code → Option Tree
  | 0, _ => none
  | f + 1, syms =>
    if bad syms then none else
    match (if (leftSyms syms).isEmpty then some Tree.absent else build f (leftSyms syms)),
          (if (rightSyms syms).isEmpty then some Tree.absent else build f (rightSyms syms)) with
    | some l, some r => some (Tree.node (syms.map isRight) l r)
    | _, _ => none

/-- translate the text (`enc.encode(*sym).ok_or(Error::InvalidEncoder)?`) -/
def encodeAll (cb : CodeBook) : List Nat → Option (List Code)
  | [] => some []
  | t :: ts =>
    match encode cb t, encodeAll cb ts with
    | some c, some cs => some (c :: cs)
    | _, _ => none

def maxLen (syms : List Code) : Nat := syms.foldl (fun m c => max m c.2) 0

/-- `WaveletTree::construct` -/
def construct (cb : CodeBook) (text : List Nat) : Option WT :=
  match encodeAll cb text with
  | none => none
  | some syms =>
    match build (maxLen syms + 1) syms with
    | none => none
    | some t => some { cb := cb, length := syms.length, root := t }

def len (w : WT) : Nat := w.length

/-- `rrr::BitVector::access_rank` (`access_rank_at`) -/
def accessRank (bits : List Bool) (x : Nat) : Option (Bool × Nat) :=
  match bits[x]? with
  | some b => some (b, (bits.take x).count true)
  | none => none

/-- `recursive_access` -/
def recAccess (cb : CodeBook) : Tree → Nat → Nat → Nat → Option Nat
  | .absent, e, sz, _ => decode cb e sz
  | .node bits l r, e, sz, x =>
    match accessRank bits x with
    | none => none
    | some (bit, rank) =>
      if bit then recAccess cb r (e ||| (1 <<< sz)) (sz + 1) rank
      else recAccess cb l e (sz + 1) (x - rank)

/-- `recursive_rank`; the tree argument is the node the code has already loaded
    (`load_node_and_bit_vector(0) = None`, and `next_node_offset == 0 → None`) -/
def recRank : Tree → Nat → Nat → Nat → Option Nat
  | .absent, _, _, _ => none
  | .node bits l r, e, sz, x =>
    if sz = 0 then none else
    match BitVec.rank bits x with
    | none => none
    | some k =>
      if e &&& 1 ≠ 0 then
        if sz = 1 then some k else recRank r (e >>> 1) (sz - 1) k
      else
        if sz = 1 then some (x - k) else recRank l (e >>> 1) (sz - 1) (x - k)

/-- `recursive_select` -/
def recSelect : Tree → Nat → Nat → Nat → Option Nat
  | .absent, _, _, _ => none
  | .node bits l r, e, sz, x =>
    if sz = 0 then none else
    if e &&& 1 ≠ 0 then
      match (if 1 < sz then recSelect r (e >>> 1) (sz - 1) x else some x) with
      | none => none
      | some y => BitVec.select bits y
    else
      match (if 1 < sz then recSelect l (e >>> 1) (sz - 1) x else some x) with
      | none => none
      | some y => BitVec.select0 bits y

/-- `WaveletTree::access` -/
def access (w : WT) (x : Nat) : Option Nat := recAccess w.cb w.root 0 0 x

/-- `WaveletTree::rank_q` -/
def rankQ (w : WT) (q x : Nat) : Option Nat :=
  match w.root with
  | .absent => none
  | t =>
    match encode w.cb q with
    | none => none
    | some (e, sz) => recRank t e sz x

/-- `WaveletTree::select_q` -/
def selectQ (w : WT) (q x : Nat) : Option Nat :=
  match w.root with
  | .absent => none
  | t =>
    match encode w.cb q with
    | none => none
    | some (e, sz) => recSelect t e sz x

/-! ### the hypothesis on the code book, as a decidable check -/

/-- `c` is a (low-bits-first) prefix of `d` -/
def preB (c d : Code) : Bool := decide (c.2 ≤ d.2) && (d.1 % 2 ^ c.2 == c.1)

def pairsOk : CodeBook → Bool
  | [] => true
  | en :: rest =>
    rest.all (fun d => en.1 != d.1 && !preB en.2 d.2 && !preB d.2 en.2) && pairsOk rest

/-- distinct symbols, every length at least one, every code below `2^len`, no code a prefix of
    another (so the codes are distinct too) -/
def prefixFreeB (cb : CodeBook) : Bool :=
  cb.all (fun en => decide (1 ≤ en.2.2) && decide (en.2.1 < 2 ^ en.2.2)) && pairsOk cb

/-- every symbol of the text has an entry -/
def inBookB (cb : CodeBook) (text : List Nat) : Bool := text.all (fun t => (encode cb t).isSome)

/-- some symbol of the text shares the first `len - 1` code bits with `(e, len)` (trivially so
    for `len = 1`): the tree then has the node in which the last bit of `(e, len)` is looked up -/
def siblingB (cb : CodeBook) (text : List Nat) (q : Nat) : Bool :=
  match encode cb q with
  | none => false
  | some (e, sz) =>
    sz == 1 || text.any (fun t =>
      match encode cb t with
      | some (c, l) => decide (sz ≤ l) && (c % 2 ^ (sz - 1) == e % 2 ^ (sz - 1))
      | none => false)

end Blue.Wavelet
