import Blue.Model.Cursor
/-! `SstCursor` (sst/src/lib.rs): a cursor over the data blocks of a table, steered by the index
    block.  Block cursors are reference cursors over the blocks' entries (`block_cursor_refines`);
    the index holds one divider per block: at or after every entry of its block, before every entry
    of the next. -/
namespace Blue.Cursor

structure SstCur (E : Type) where
  blocks : List (List E)
  dividers : List E
  metaIdx : Nat
  bc : Option (Ref E)

namespace SstCur
variable {E : Type}

def kv (c : SstCur E) : Option E := c.bc.bind Ref.kv

def toFirst (c : SstCur E) : SstCur E := { c with metaIdx := 0, bc := none }
def toLast (c : SstCur E) : SstCur E := { c with metaIdx := c.blocks.length, bc := none }

def loadBlock (c : SstCur E) (i : Nat) : Ref E := ⟨c.blocks.getD i [], 0⟩

/-- `next`: the loop runs until an entry shows or the blocks are exhausted -/
def next : Nat → SstCur E → SstCur E
  | 0, c => c
  | f + 1, c =>
    match c.bc with
    | none =>
      if c.metaIdx ≥ c.blocks.length then c.toLast
      else
        let b := (c.loadBlock c.metaIdx).first.next
        if b.kv.isSome then { c with bc := some b }
        else next f { c with bc := none, metaIdx := c.metaIdx + 1 }
    | some b =>
      let b' := b.next
      if b'.kv.isSome then { c with bc := some b' }
      else next f { c with bc := none, metaIdx := c.metaIdx + 1 }

def prev : Nat → SstCur E → SstCur E
  | 0, c => c
  | f + 1, c =>
    match c.bc with
    | none =>
      if c.metaIdx = 0 then c.toFirst
      else
        let b := (c.loadBlock (c.metaIdx - 1)).last.prev
        if b.kv.isSome then { c with bc := some b, metaIdx := c.metaIdx - 1 }
        else prev f { c with bc := none, metaIdx := c.metaIdx - 1 }
    | some b =>
      let b' := b.prev
      if b'.kv.isSome then { c with bc := some b' }
      else prev f { c with bc := none }

/-- `seek_index`: `partition_point` over the dividers -/
def seekIndex (c : SstCur E) (p : E → Bool) : Nat := (c.dividers.takeWhile (fun d => !p d)).length

def seek (p : E → Bool) (c : SstCur E) : SstCur E :=
  let idx := c.seekIndex p
  if idx ≥ c.blocks.length then c.toLast
  else
    let b := (c.loadBlock idx).seek p
    if b.kv.isSome then { c with metaIdx := idx, bc := some b }
    else if idx + 1 ≥ c.blocks.length then c.toLast
    else { c with metaIdx := idx + 1, bc := some ((c.loadBlock (idx + 1)).seek p) }

def step (c : SstCur E) : Op E → SstCur E
  | .first => c.toFirst
  | .last => c.toLast
  | .next => next (c.blocks.length + 2) c
  | .prev => prev (c.blocks.length + 2) c
  | .seek p => c.seek p

def run (c : SstCur E) : List (Op E) → List (Option E)
  | [] => []
  | op :: ops => (c.step op).kv :: run (c.step op) ops

end SstCur
end Blue.Cursor
