/-! `sync42::wait_list::WaitList` under its state mutex: a ring of `n` waiter slots, `head` and
    `tail` counters, one `linked` flag per slot.  `live` is ghost: the indices of the guards that
    exist. -/
namespace Blue.WaitList

structure St where
  n : Nat
  head : Nat
  tail : Nat
  linked : Nat → Bool
  live : List Nat

def init (n : Nat) : St := ⟨n, 0, 0, fun _ => false, []⟩

/-- `link`: only when a slot is free (otherwise the caller waits on `wait_waiter_available`) -/
def link (s : St) : Option (St × Nat) :=
  if s.head + s.n ≤ s.tail then none
  else
    let index := s.tail
    some ({ s with tail := s.tail + 1,
                   linked := fun slot => if slot = index % s.n then true else s.linked slot,
                   live := index :: s.live }, index)

/-- `while head < tail && !linked[head % n] { head += 1 }` -/
def advance : Nat → St → St
  | 0, s => s
  | f+1, s => if s.head < s.tail ∧ s.linked (s.head % s.n) = false then advance f { s with head := s.head + 1 } else s

/-- `_unlink(index)` -/
def unlink (s : St) (index : Nat) : St :=
  let s1 := { s with linked := fun slot => if slot = index % s.n then false else s.linked slot,
                     live := s.live.filter (· ≠ index) }
  advance (s.n + 1) s1

/-- `WaitGuard::is_head` -/
def isHead (s : St) (index : Nat) : Bool := decide (index = s.head)

inductive Op where
  | link
  | unlink (index : Nat)

def step (s : St) : Op → St
  | .link => match link s with | some (s', _) => s' | none => s
  | .unlink i => if i ∈ s.live then unlink s i else s

end Blue.WaitList
