import Blue.Model.StoreHist
/-! # `Blue.StoreHist` with the flush SPLIT into its two critical sections

`_memtable_thread` (lsmtk/src/kvs/mod.rs) installs the flushed table with `self.tree._ingest(…)`
(line 310) and only later, under the state lock again, does `state.imm = None` (line 322).  Between
the two, `load` / `range_scan` (which clone `mem`, `imm` and take the tree snapshot under the state
lock, lines 555–565 / 589–599) see the flushed versions TWICE: through `imm` and through the tree.

Alphabet: `write`, `rollover`, `compact` as in `Blue.StoreHist`, and
* `flushInstall` — `_ingest`: the level-0 file with the immutable memtable's versions is added,
  `imm` stays; the state is now a WINDOW state (`win = true`);
* `flushClear` — `state.imm = None`; the window ends.

What the code allows inside the window: writes (`write` never waits for `imm`), compactions (the
compaction thread may pick the new file), reads.  NOT a rollover: rotation and clear are the head
and the tail of one iteration of the single `_memtable_thread` loop (lines 220–327), so the next
rotation comes after the clear; in the model `rollover` on a state with an immutable memtable is
the no-op it already is in `Blue.StoreHist`.  A second `flushInstall` inside the window and a
`flushClear` outside it are no-ops.  As in `Blue.StoreHist`, an EMPTY immutable memtable gets no
file. -/
namespace Blue.StoreHistWindow
open Blue.Spec Blue.Kvs Blue.StoreHist

inductive WOp where
  | write (batch : List (Nat × Payload))
  | rollover
  | flushInstall
  | flushClear
  | compact (l0' : List KFile) (levels' : List (List KFile))

structure WState where
  h : HState
  /-- the table of `imm` is installed and `imm` not yet cleared -/
  win : Bool

def initW : WState := ⟨init, false⟩

/-- `_ingest` of the immutable memtable's table: `imm` untouched -/
def install (h : HState) : HState :=
  match h.st.imm with
  | some (v :: i) => { h with st := { h.st with l0 := flushFile (v :: i) :: h.st.l0 } }
  | _ => h

/-- `state.imm = None` -/
def clr (h : HState) : HState := { h with st := { h.st with imm := none } }

def applyW (w : WState) : WOp → WState
  | .write b => { w with h := apply w.h (.write b) }
  | .rollover => { w with h := apply w.h .rollover }
  | .flushInstall => if w.win then w else ⟨install w.h, w.h.st.imm.isSome⟩
  | .flushClear => if w.win then ⟨clr w.h, false⟩ else w
  | .compact l0' levels' => { w with h := apply w.h (.compact l0' levels') }

def OpOkW (w : WState) : WOp → Prop
  | .compact l0' levels' => CompactionOk w.h.st { w.h.st with l0 := l0', levels := levels' }
  | _ => True

def ValidW : WState → List WOp → Prop
  | _, [] => True
  | w, op :: ops => OpOkW w op ∧ ValidW (applyW w op) ops

def runW (w : WState) (ops : List WOp) : WState := ops.foldl applyW w

/-- the state `flushClear` leads to (the state itself outside a window) -/
def shadow (w : WState) : HState := if w.win then clr w.h else w.h

/-! ## the specification: unchanged — accepted writes only -/

def specStepW (m : SpecMap) (ts : Nat) : WOp → SpecMap
  | .write b => specStep m ts (.write b)
  | _ => m

def runSpecW : WState → SpecMap → List WOp → SpecMap
  | _, m, [] => m
  | w, m, op :: ops => runSpecW (applyW w op) (specStepW m (w.h.seq + 1) op) ops

def specW (ops : List WOp) : SpecMap := runSpecW initW (fun _ => none) ops

def valStepW (m : Nat → Option Payload) : WOp → (Nat → Option Payload)
  | .write b => valStep m (.write b)
  | _ => m

/-- the payload of the last accepted write to each key -/
def lastWriteW (ops : List WOp) : Nat → Option Payload := ops.foldl valStepW (fun _ => none)

/-- the `Blue.StoreHist` history a split history collapses to: `flushInstall` is the atomic
    `flush`, `flushClear` nothing; a rollover / second install inside a window (no-ops) nothing -/
def collapseOp (w : WState) : WOp → List Op
  | .write b => [.write b]
  | .rollover => if w.win then [] else [.rollover]
  | .flushInstall => if w.win then [] else [.flush]
  | .flushClear => []
  | .compact l0' levels' => [.compact l0' levels']

def collapse : WState → List WOp → List Op
  | _, [] => []
  | w, op :: ops => collapseOp w op ++ collapse (applyW w op) ops

end Blue.StoreHistWindow
