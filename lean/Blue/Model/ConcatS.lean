import Blue.Model.ConcatC
/-! Concatenating cursor with the side effects of `seek`'s probes (sst/src/concat_cursor.rs, `seek`).

    `ConcatC.seek` reads the probed children's last entries functionally (`peekLast`), leaving the
    children untouched.  The code does not: every probe is
    `self.reposition(probe)?; self.cursors[self.position].seek_to_last()?; …prev()?` and the
    answer is read with `self.cursors[self.position].key()`.  So a probe
    * moves `self.position` to the probed child,
    * performs `seek_to_first` on the child that was active before (`reposition`, when it differs),
    * leaves the probed child at its last entry (`seek_to_last; prev`) until the next `reposition`
      away from it, which performs `seek_to_first` on it.
    After the search `self.reposition(left)?` (`seek_to_first` on the last probed child if it is
    not the target) and `self.cursors[self.position].seek(key)` on the target.

    `ConcatS` is `ConcatC` with exactly this `seek`; the state type and all other operations are
    those of `ConcatC`. -/
namespace Blue.Cursor
namespace ConcatS
variable {E : Type} (C : Cur E)

/-- `self.reposition(p)?; self.cursors[self.position].seek_to_last()?; self.cursors[self.position].prev()?` -/
def probe (m : ConcatC C) (p : Nat) : ConcatC C :=
  let m := ConcatC.reposition C m p
  ⟨ConcatC.modifyAt C m.cs m.position (fun c => C.prev (C.last c)), m.position⟩

/-- `while probe > left && self.cursors[self.position].key().is_none() { probe -= 1; …probe… }`;
    returns the state and the final value of `probe` -/
def walkDown (left : Nat) : Nat → ConcatC C → ConcatC C × Nat
  | 0, m => (m, 0)
  | p+1, m =>
    if left < p + 1 && (ConcatC.kv C m).isNone then walkDown left p (probe C m p) else (m, p + 1)

/-- the `while left < right` loop; returns the state and the final `left` -/
def searchLoop (pred : E → Bool) : Nat → ConcatC C → Nat → Nat → ConcatC C × Nat
  | 0, m, left, _ => (m, left)
  | f+1, m, left, right =>
    if left < right then
      let mid := (left + right) / 2
      let r := walkDown C left mid (probe C m mid)
      match ConcatC.kv C r.1 with
      | some e => if pred e then searchLoop pred f r.1 left r.2 else searchLoop pred f r.1 (mid + 1) right
      | none => searchLoop pred f r.1 (mid + 1) right
    else (m, left)

def seek (pred : E → Bool) (m : ConcatC C) : ConcatC C :=
  let r := searchLoop C pred (m.cs.length + 1) m 0 (m.cs.length - 1)
  let m2 := ConcatC.reposition C r.1 r.2
  ⟨ConcatC.modifyAt C m2.cs m2.position (C.seek pred), m2.position⟩

def cur : Cur E where
  σ := ConcatC C
  first := ConcatC.seekToFirst C
  last := ConcatC.seekToLast C
  next := ConcatC.next C
  prev := ConcatC.prev C
  seek := seek C
  kv := ConcatC.kv C
  ok := fun m => m.cs.all C.ok

end ConcatS
end Blue.Cursor
