/-! `sync42::lru::LeastRecentlyUsedCache` as a sequential map with recency (most recent first).
    The accounted size is a field updated as the code updates it. -/
namespace Blue.Lru

structure Cache (K V : Type) where
  capacity : Nat
  size : Nat
  /-- head of the linked list first -/
  entries : List (K × V)

variable {K V : Type} [DecidableEq K] (sz : V → Nat)

def new (capacity : Nat) : Cache K V := ⟨capacity, 0, []⟩

/-- replace the value of `k` in place (the node keeps its position) -/
def replaceVal (k : K) (v : V) : List (K × V) → List (K × V)
  | [] => []
  | (k', v') :: t => if k' = k then (k', v) :: t else (k', v') :: replaceVal k v t

def find (k : K) : List (K × V) → Option V
  | [] => none
  | (k', v') :: t => if k' = k then some v' else find k t

/-- `insert_helper` -/
def insertHelper (c : Cache K V) (k : K) (v : V) : Cache K V :=
  match find k c.entries with
  | some old => { c with size := c.size + sz v - sz old, entries := replaceVal k v c.entries }
  | none => { c with size := c.size + sz v, entries := (k, v) :: c.entries }

/-- `remove_lru`: drop the tail -/
def removeLru (c : Cache K V) : Cache K V :=
  match c.entries.getLast? with
  | some (_, v) => { c with size := c.size - sz v, entries := c.entries.dropLast }
  | none => c

/-- `while size > capacity && !head.is_null() { remove_lru }` -/
def evict : Nat → Cache K V → Cache K V
  | 0, c => c
  | f+1, c => if c.size > c.capacity && !c.entries.isEmpty then evict f (removeLru sz c) else c

def insert (c : Cache K V) (k : K) (v : V) : Cache K V :=
  let c1 := insertHelper sz c k v
  evict sz (c1.entries.length + 1) c1

def insertNoEvict (c : Cache K V) (k : K) (v : V) : Cache K V := insertHelper sz c k v

/-- `lookup`: the value, and the node moved to the front -/
def lookup (c : Cache K V) (k : K) : Option V × Cache K V :=
  match find k c.entries with
  | some v => (some v, { c with entries := (k, v) :: c.entries.filter (fun e => e.1 ≠ k) })
  | none => (none, c)

/-- `remove`: move to back, then `remove_lru` -/
def remove (c : Cache K V) (k : K) : Cache K V :=
  match find k c.entries with
  | some v => { c with size := c.size - sz v, entries := c.entries.filter (fun e => e.1 ≠ k) }
  | none => c

def pop (c : Cache K V) : Option (K × V) × Cache K V :=
  match c.entries.getLast? with
  | some e => (some e, removeLru sz c)
  | none => (none, c)

end Blue.Lru
