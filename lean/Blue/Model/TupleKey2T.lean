import Blue.Model.TupleKey2
import Blue.Model.Utf8
/-! Compact tuple keys, the typed layer (tuple_key2/src/lib.rs): `TupleKeyBuilder` and
    `TupleKeyParser` with the `Error` each call returns. -/
namespace Blue.TupleKey2

def SIGNED_NEG_LAST : Nat := 0x18
def SIGNED_NONNEG_LAST : Nat := 0x21
def UNSIGNED_LAST : Nat := 0x2a

/-- the builder / parser methods -/
inductive Ty | unit | u8 | u16 | u32 | u64 | i8 | i16 | i32 | i64 | bytes | str
  deriving DecidableEq, Repr

inductive Val
  | unit
  | nat (n : Nat)
  | int (z : Int)
  | bytes (s : List Nat)
  deriving DecidableEq

/-- `tuple_key2::Error` -/
inductive Err
  | unexpectedEnd
  | invalidIntegerTag (tag : Nat)
  | invalidUnitTag (tag : Nat)
  | nonCanonical
  | outOfRange (target : Ty)
  | invalidEscape (byte : Nat)
  | unterminated
  | invalidUtf8
  | trailing (remaining : Nat)
  deriving DecidableEq

/-- `TupleKeyBuilder::{unit,u8..u64,i8..i64,bytes,string}`; `none` = the value is not of the
    method's argument type -/
def encVal : Ty → Val → Option (List Nat)
  | .unit, .unit => some encodeUnit
  | .u8, .nat n | .u16, .nat n | .u32, .nat n | .u64, .nat n => some (encodeU64 n)
  | .i8, .int z | .i16, .int z | .i32, .int z | .i64, .int z => some (encodeI64 z)
  | .bytes, .bytes s | .str, .bytes s => some (encodeBytes s)
  | _, _ => none

def encRow : List (Ty × Val) → Option (List Nat)
  | [] => some []
  | (t, v) :: rest =>
    match encVal t v, encRow rest with
    | some a, some b => some (a ++ b)
    | _, _ => none

/-- `TupleKeyParser::u64` -/
def parseU64 : List Nat → Except Err (Nat × List Nat)
  | [] => .error .unexpectedEnd
  | tag :: rest =>
    if UNSIGNED_BASE ≤ tag ∧ tag ≤ UNSIGNED_LAST then
      if rest.length < tag - UNSIGNED_BASE then .error .unexpectedEnd
      else if minLen (fromBigEndian (rest.take (tag - UNSIGNED_BASE))) = tag - UNSIGNED_BASE then
        .ok (fromBigEndian (rest.take (tag - UNSIGNED_BASE)), rest.drop (tag - UNSIGNED_BASE))
      else .error .nonCanonical
    else .error (.invalidIntegerTag tag)

/-- `decode_negative_i64_payload`'s magnitude: `!encoded & mask` -/
def negMagnitude (payload : List Nat) : Nat := 256 ^ payload.length - 1 - fromBigEndian payload

/-- `TupleKeyParser::i64` -/
def parseI64 : List Nat → Except Err (Int × List Nat)
  | [] => .error .unexpectedEnd
  | tag :: rest =>
    if SIGNED_NEG_BASE ≤ tag ∧ tag ≤ SIGNED_NEG_LAST then
      if rest.length < 8 - (tag - SIGNED_NEG_BASE) then .error .unexpectedEnd
      else if minLen (negMagnitude (rest.take (8 - (tag - SIGNED_NEG_BASE)))) ≠ 8 - (tag - SIGNED_NEG_BASE) then
        .error .nonCanonical
      else if negMagnitude (rest.take (8 - (tag - SIGNED_NEG_BASE))) > 9223372036854775807 then
        .error (.outOfRange .i64)
      else .ok (-(negMagnitude (rest.take (8 - (tag - SIGNED_NEG_BASE))) : Int) - 1, rest.drop (8 - (tag - SIGNED_NEG_BASE)))
    else if SIGNED_NONNEG_BASE ≤ tag ∧ tag ≤ SIGNED_NONNEG_LAST then
      if rest.length < tag - SIGNED_NONNEG_BASE then .error .unexpectedEnd
      else if minLen (fromBigEndian (rest.take (tag - SIGNED_NONNEG_BASE))) ≠ tag - SIGNED_NONNEG_BASE then
        .error .nonCanonical
      else if fromBigEndian (rest.take (tag - SIGNED_NONNEG_BASE)) > 9223372036854775807 then
        .error (.outOfRange .i64)
      else .ok ((fromBigEndian (rest.take (tag - SIGNED_NONNEG_BASE)) : Int), rest.drop (tag - SIGNED_NONNEG_BASE))
    else .error (.invalidIntegerTag tag)

/-- `TupleKeyParser::bytes` (fuel = input length + 1) -/
def parseBytes : Nat → List Nat → Except Err (List Nat × List Nat)
  | 0, _ => .error .unterminated
  | _ + 1, [] => .error .unterminated
  | f + 1, b :: rest =>
    if b = 0 then
      match rest with
      | [] => .error .unterminated
      | e :: rest' =>
        if e = 0 then .ok ([], rest')
        else if e = 255 then
          match parseBytes f rest' with
          | .ok (s, r) => .ok (0 :: s, r)
          | .error x => .error x
        else .error (.invalidEscape e)
    else
      match parseBytes f rest with
      | .ok (s, r) => .ok (b :: s, r)
      | .error x => .error x

/-- `TupleKeyParser::unit` -/
def parseUnit : List Nat → Except Err (List Nat)
  | [] => .error .unexpectedEnd
  | tag :: rest => if tag = UNIT_TAG then .ok rest else .error (.invalidUnitTag tag)

def natFits : Ty → Nat → Bool
  | .u8, n => n < 256
  | .u16, n => n < 65536
  | .u32, n => n < 4294967296
  | _, _ => true

def intFits : Ty → Int → Bool
  | .i8, z => -128 ≤ z && z < 128
  | .i16, z => -32768 ≤ z && z < 32768
  | .i32, z => -2147483648 ≤ z && z < 2147483648
  | _, _ => true

/-- one typed parser call -/
def parseVal (t : Ty) (buf : List Nat) : Except Err (Val × List Nat) :=
  match t with
  | .unit => match parseUnit buf with
    | .ok r => .ok (.unit, r)
    | .error e => .error e
  | .u8 | .u16 | .u32 | .u64 => match parseU64 buf with
    | .ok (n, r) => if natFits t n then .ok (.nat n, r) else .error (.outOfRange t)
    | .error e => .error e
  | .i8 | .i16 | .i32 | .i64 => match parseI64 buf with
    | .ok (z, r) => if intFits t z then .ok (.int z, r) else .error (.outOfRange t)
    | .error e => .error e
  | .bytes => match parseBytes (buf.length + 1) buf with
    | .ok (s, r) => .ok (.bytes s, r)
    | .error e => .error e
  | .str => match parseBytes (buf.length + 1) buf with
    | .ok (s, r) => if Blue.Utf8.valid s then .ok (.bytes s, r) else .error .invalidUtf8
    | .error e => .error e

/-- an expected type sequence followed by `finish` -/
def parseRow : List Ty → List Nat → List Val × Option Err
  | [], [] => ([], none)
  | [], b :: r => ([], some (.trailing (b :: r).length))
  | t :: ts, buf =>
    match parseVal t buf with
    | .error e => ([], some e)
    | .ok (v, rest) =>
      match parseRow ts rest with
      | (vs, e) => (v :: vs, e)

end Blue.TupleKey2
