/-! `scrunch::bit_array`: `Builder::push_word` / `seal`, `BitArray::load`, and the
    `FixedWidthIterator`, on a flat list of bits (bit `8*k + j` of the list is bit `j` of byte `k`,
    which is how `Builder::push` and `BitArray::get` number them).

    What is abstracted: the byte loop of `load` / `push_word` (it moves at most 8 bits at a time; here
    the bits are taken one by one).  The abstraction is tied to the real `BitArray` / `Builder` by the
    `ba` request of the correspondence run. -/
namespace Blue.BitArr

/-- the `w` low bits of `v`, least significant first (`push_word(v, w)` appends exactly these; the
    code asserts `v < 2^w`) -/
def toBits (v : Nat) : Nat → List Bool
  | 0 => []
  | w + 1 => (v % 2 == 1) :: toBits (v / 2) w

def ofBits : List Bool → Nat
  | [] => 0
  | b :: t => (if b then 1 else 0) + 2 * ofBits t

/-- `Builder::push_word` -/
def pushWord (a : List Bool) (v w : Nat) : List Bool := a ++ toBits v w

/-- `Builder::seal`: the last partial byte is filled with zero bits -/
def sealBits (a : List Bool) : List Bool := a ++ List.replicate ((8 - a.length % 8) % 8) false

/-- `BitArray::load(index, bits)`: `None` as soon as a byte it touches does not exist; a zero-width
    load touches nothing.  (For a sealed array, i.e. a whole number of bytes, the condition is
    `idx + w ≤ a.length`.) -/
def load (a : List Bool) (idx w : Nat) : Option Nat :=
  if w = 0 then some 0
  else if (idx + w - 1) / 8 < a.length / 8 then some (ofBits ((a.drop idx).take w))
  else none

/-- `for v in vals { b.push_word(v, w) }` on a fresh builder: an array of fixed-width fields -/
def packAll (vals : List Nat) (w : Nat) : List Bool := vals.foldl (fun a v => pushWord a v w) []

/-- `for (v, w) in fs { b.push_word(v, w) }`: fields of varying width -/
def packFields (fs : List (Nat × Nat)) : List Bool := fs.flatMap (fun f => toBits f.1 f.2)

/-- `FixedWidthIterator { index, end, next, bits }` after `new(buf, align, len, width)`:
    `index = align`, `end = align + len`, `next = 0`, `bits = 0` -/
structure FwIter where
  index : Nat
  stop : Nat
  width : Nat
  next : Nat
  bits : Nat

def fwNew (align len width : Nat) : FwIter := ⟨align, align + len, width, 0, 0⟩

/-- `FixedWidthIterator::next`: refill with up to 32 bits when fewer than `width` are buffered -/
def fwNext (a : List Bool) (it : FwIter) : Option (Nat × FwIter) :=
  if it.index ≥ it.stop ∧ it.bits < it.width then none
  else if it.bits < it.width then
    let amt := min (it.stop - it.index) 32
    match load a it.index amt with
    | none => none
    | some x =>
      let nx := it.next + x * 2 ^ it.bits
      let b := it.bits + amt
      -- `self.bits -= self.width` underflows (panics) if the refill was too short; the model
      -- reports that as the end of the iteration (never reached when `width` divides `len`)
      if b < it.width then none
      else some (nx % 2 ^ it.width, { it with index := it.index + amt, next := nx / 2 ^ it.width, bits := b - it.width })
  else some (it.next % 2 ^ it.width, { it with next := it.next / 2 ^ it.width, bits := it.bits - it.width })

end Blue.BitArr
