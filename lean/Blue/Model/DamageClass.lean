import Blue.Model.SstOpen
import Blue.Model.Damage
/-! Which region of a pristine file a damage step hits (property C09), computed from the model's own
    reading of the pristine bytes: the extents the SST reader uses (index entries, final block),
    the frames the log reader finds, the lines of the manifest.  The regions are those of the
    theorems of `Blue.Props.C09` (one frame of one SST block, the unchecksummed tail; header or
    payload of one log frame, a padding run; one manifest line, a separator, a newline), so the
    class token says which theorem's hypothesis class a case falls in.  The harness computes the
    same token from its own, independent parse of the bytes; the two are compared case by case. -/
namespace Blue.DamageClass
open Blue.Damage Blue.SstOpen Blue.Wire Blue.Sst

structure Reg where
  lo : Nat
  hi : Nat
  /-- the region of a theorem: its kind … -/
  group : String
  /-- … and which one of that kind (any injective numbering) -/
  inst : Nat
  sub : String
deriving Repr

def regOf (rs : List Reg) (off : Nat) : Option Reg := rs.find? (fun r => r.lo ≤ off && off < r.hi)

/-! ### SST -/

/-- tag and length of a frame, and its payload -/
def frameRegs (file : List Nat) (m : BlockMeta) (group : String) (inst : Nat) : List Reg :=
  match frameAt file m with
  | .ok (_, body) =>
    [⟨m.start, m.limit - body.length, group, inst, "header"⟩, ⟨m.limit - body.length, m.limit, group, inst, "payload"⟩]
  | .error _ => []

def tailFieldName (num : Nat) : String :=
  if num = 16 then "index-meta" else if num = 17 then "filter-meta"
  else if num = 19 ∨ num = 20 ∨ num = 21 then "meta" else "other"

/-- the top-level fields of the final block; field 18 (`final_block_offset`, fixed64) is the
    trailer -/
def tailRegs : Nat → List (Tag × List Nat) → List Reg
  | _, [] => []
  | off, (tag, slice) :: rest =>
    let tl := (encTag tag).length
    if tag.num = 18 ∧ tag.wt = .sixtyFour then
      ⟨off, off + tl, "tail", 0, "offset-tag"⟩ :: ⟨off + tl, off + tl + slice.length, "tail", 0, "trailer"⟩
        :: tailRegs (off + tl + slice.length) rest
    else ⟨off, off + tl + slice.length, "tail", 0, tailFieldName tag.num⟩ :: tailRegs (off + tl + slice.length) rest

def dataRegs (file : List Nat) : Nat → List (List Nat × BlockMeta) → List Reg
  | _, [] => []
  | i, (_, m) :: rest => frameRegs file m "data" i ++ dataRegs file (i + 1) rest

/-- the regions of a pristine SST, and the end of its filter block -/
def sstRegs (crc : List Nat → Nat) (file : List Nat) : Option (List Reg × Nat) :=
  match openSst crc file with
  | .error _ => none
  | .ok t =>
    let fbo := unle64 (file.drop (file.length - 8))
    let tail := file.drop fbo
    some (dataRegs file 0 t.entries ++ frameRegs file t.fin.index "index" 0 ++ frameRegs file t.fin.filter "filter" 0
            ++ tailRegs fbo (fields (tail.length + 1) tail).1,
          t.fin.filter.limit)

/-! ### log -/

def discName (d : Nat) : String :=
  if d = Blue.Log.WHOLE then "whole" else if d = Blue.Log.FIRST then "first"
  else if d = Blue.Log.SECOND then "second" else "other"

/-- the frames of a pristine log (real header layout: tag, size, tag, discriminant, tag, four CRC
    bytes) and its padding runs -/
def logRegs (a : Array Nat) : Nat → Nat → List Reg
  | 0, _ => []
  | f + 1, off =>
    match a[off]? with
    | none => []
    | some h =>
      if h = 0 then
        let e := min ((off / 1048576 + 1) * 1048576) a.size
        ⟨off, e, "padding", off, "padding"⟩ :: logRegs a f e
      else
        let hs := off + 1
        if hs + h > a.size then []
        else
          match Blue.Log.decHdr (a.extract hs (hs + h)).toList with
          | none => []
          | some hd =>
            let sv := (encVarint hd.size).length
            let dv := (encVarint hd.disc).length
            [⟨off, off + 1, "header", off, "length"⟩, ⟨hs, hs + 1, "header", off, "tag"⟩,
             ⟨hs + 1, hs + 1 + sv, "header", off, "size"⟩, ⟨hs + 1 + sv, hs + 2 + sv, "header", off, "tag"⟩,
             ⟨hs + 2 + sv, hs + 2 + sv + dv, "header", off, "disc"⟩,
             ⟨hs + 2 + sv + dv, hs + 3 + sv + dv, "header", off, "tag"⟩, ⟨hs + 3 + sv + dv, hs + h, "header", off, "crc"⟩,
             ⟨hs + h, hs + h + hd.size, "payload", off, discName hd.disc⟩]
              ++ (if hs + h + hd.size > off then logRegs a f (hs + h + hd.size) else [])

/-! ### manifest -/

def maniRegs : Nat → Nat → List Nat → List Reg
  | 0, _, _ => []
  | _ + 1, _, [] => []
  | f + 1, off, bs =>
    let (line, rest) := Blue.Mani.splitLine bs
    let e := off + line.length
    let here : List Reg :=
      if line = Blue.Mani.SEP then [⟨off, e, "separator", off, "separator"⟩]
      else if line.length > 9 then
        [⟨off, off + 8, "line", off, "crc"⟩, ⟨off + 8, off + 9, "line", off, "action"⟩, ⟨off + 9, e, "line", off, "body"⟩]
      else [⟨off, e, "line", off, "short"⟩]
    match rest with
    | none => here
    | some r => here ++ ⟨e, e + 1, "newline", e, "newline"⟩ :: maniRegs f (e + 1) r

/-! ### the class of a damage sequence -/

/-- what the regions of a pristine file are, per kind -/
structure Layout where
  kind : String
  regs : List Reg
  /-- SST: end of the filter block (a cut below it cannot leave a final block naming it) -/
  filterLimit : Nat

def layoutOf (crc : List Nat → Nat) (kind : String) (bytes : List Nat) : Option Layout :=
  if kind = "sst" then (sstRegs crc bytes).map fun r => ⟨kind, r.1, r.2⟩
  else if kind = "log" then some ⟨kind, logRegs bytes.toArray (bytes.length + 1) 0, 0⟩
  else if kind = "mani" then some ⟨kind, maniRegs (bytes.length + 1) 0 bytes, 0⟩
  else none

def regTok (r : Reg) : String := if r.sub = r.group then r.group else r.group ++ "." ++ r.sub

/-- one step on its own -/
def stepTok (l : Layout) : Dmg → String
  | .flip off _ | .over off _ =>
    match regOf l.regs off with
    | some r => regTok r
    | none => "outside"
  | .trunc n =>
    if l.kind = "sst" then (if n < l.filterLimit then "truncate.below-filter" else "truncate.tail") else "truncate"
  | .app _ => "append"

/-- the theorem region a step lies in, if it is a flip or an overwrite inside one -/
def stepGroup (l : Layout) : Dmg → Option (String × Nat)
  | .flip off _ | .over off _ => (regOf l.regs off).map fun r => (r.group, r.inst)
  | _ => none

/-- `damage.<kind>.<region>[.<part>]` for one step; `damage.<kind>.<region>.multi` for several steps
    inside one and the same region; `damage.<kind>.several` otherwise -/
def classOf (l : Layout) (ds : List Dmg) : String :=
  match ds with
  | [] => "pristine"
  | [d] => "damage." ++ l.kind ++ "." ++ stepTok l d
  | d :: rest =>
    match stepGroup l d with
    | some g => if rest.all (fun x => stepGroup l x == some g) then "damage." ++ l.kind ++ "." ++ g.1 ++ ".multi"
                else "damage." ++ l.kind ++ ".several"
    | none => "damage." ++ l.kind ++ ".several"

end Blue.DamageClass
