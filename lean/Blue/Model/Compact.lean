import Blue.Model.Cursor
/-! The merge/split pipeline of `perform_compaction` (lsmtk/src/tree/mod.rs) below the tree:
    every input table is read through one `MergingCursor` (`Blue.Cursor.Merging`, the executable
    model of sst/src/merging_cursor.rs), `cursor.seek_to_first()` then `loop { cursor.next();
    cursor.key_value() }`, and every entry goes to the `SstMultiBuilder`, which closes the current
    output file at places that depend on byte sizes and split hints — for the model: at an
    arbitrary cut vector. -/
namespace Blue.Compact

/-- one table entry: key bytes, timestamp, value bytes or tombstone -/
structure Entry where
  key : List Nat
  ts : Nat
  val : Option (List Nat)
deriving DecidableEq, Repr

/-- byte-string order (`[u8]: Ord`) -/
def bytesLt : List Nat → List Nat → Bool
  | _, [] => false
  | [], _ :: _ => true
  | a :: as, b :: bs => a < b || (a == b && bytesLt as bs)

/-- `KeyRef: Ord`: key ascending, then timestamp descending -/
def entryLt (a b : Entry) : Bool :=
  bytesLt a.key b.key || (a.key == b.key && decide (b.ts < a.ts))

/-- `loop { cursor.next()?; match cursor.key_value() { Some(kvr) => …, None => break } }` -/
def drainFrom {E : Type} (lt : E → E → Bool) : Nat → Blue.Cursor.Merging E → List E
  | 0, _ => []
  | fuel + 1, m =>
    match (m.next lt).kv with
    | none => []
    | some e => e :: drainFrom lt fuel (m.next lt)

/-- `MergingCursor::new(cursors)?` (which seeks to first), `cursor.seek_to_first()?`, drain -/
def merged {E : Type} (lt : E → E → Bool) (tables : List (List E)) : List E :=
  drainFrom lt ((tables.map List.length).sum + 1)
    ((Blue.Cursor.Merging.new lt (tables.map fun t => ⟨t, 0⟩)).seekToFirst lt)

/-- cut a run into consecutive pieces of the given sizes; the last piece is what is left
    (the same function as `Blue.Cursor.cut` of the conservation proof, `cut_eq`) -/
def cut {E : Type} : List Nat → List E → List (List E)
  | [], l => [l]
  | n :: ns, l => l.take n :: cut ns (l.drop n)

end Blue.Compact
