import Blue.Model.BitVec
/-! `scrunch::bit_vector::cf_rrr`: the one place where an implementation's own `rank` differed from
    the trait's reference semantics (the cf_rrr defect found by C19, repaired by `/repo fix bff6c23`).
    Kept so that the known input stays a theorem after the repair. -/
namespace Blue.BitVec

/-- `PARAM_WORDS_PER_BLOCK` 63-bit words per block -/
def cfWordsPerBlock : Nat := 23

def cfBlockBits : Nat := cfWordsPerBlock * 63

/-- `cf_rrr::BitVector::rank` *as it was*: `access_rank(len)` jumps to block `len / cfBlockBits`,
    which does not exist when `len` is a positive multiple of the block size -/
def rankCfOld (bits : List Bool) (x : Nat) : Option Nat :=
  if x = bits.length ∧ 0 < x ∧ x % cfBlockBits = 0 then none else rank bits x

end Blue.BitVec
