import Blue.Model.Verifier
/-! The RANGE of `last_removals` (lsmtk/src/verifier.rs, `LsmVerifier::verify`).

    `verify` lists `mani/` (`list_mani_fragments`: every `MANIFEST.<n>` in ascending order, then
    `MANIFEST`), computes `last_removals(&entries)` over ALL of these entries, and only then pops
    `MANIFEST` and the newest numbered fragment off the list: those two are never processed, but
    the removals they record are known to the plan of every fragment that is.  `Blue.Verifier`
    has this as `laterRm d n` (fragments numbered above `n` — the newest one included — and
    `MANIFEST`).

    This file makes the range a parameter: `passL later` is `pass` with the list of later
    removals computed by `later`; `passL laterRm = pass` (`Blue.Proofs.VerifierNewest`), and
    `laterRmNarrow` is what the plan would know if `last_removals` were called AFTER the two
    pops, i.e. only over the entries the pass processes. -/
namespace Blue.Verifier
open Blue.Mani

variable {A : Type}

/-- the entries `last_removals` ranges over, as lists of edits: every numbered fragment, the
    newest one included, and `MANIFEST` -/
def lastRemovalsRange (d : Dir A) : List (List Edit) := d.frags.map (·.2) ++ [d.live]

/-- the digests removed by the two entries no pass processes: the newest numbered fragment and
    `MANIFEST` -/
def newestTwoRm (d : Dir A) : List Name :=
  (match d.frags.getLast? with
    | some f => f.2.flatMap removedBy
    | none => []) ++ d.live.flatMap removedBy

/-- how many entries `verify` has popped off its list when it calls `last_removals`: none — the
    model's `laterRm` is the range over everything `list_mani_fragments` returned (with 2 it would
    be `laterRmNarrow` below); tied to the source in `Blue.Proofs.ConstsTieC08` -/
def popsBeforeLastRemovals : Nat := 0

/-- `last_removals` computed after `entries.pop(); entries.pop()`: the removals of the fragments
    numbered above `n` AMONG THE ENTRIES OF THE PASS — nothing of the newest numbered fragment,
    nothing of `MANIFEST` -/
def laterRmNarrow (d : Dir A) (n : Nat) : List Name :=
  ((entries d).filter (fun f => decide (n < f.1))).flatMap (fun f => f.2.flatMap removedBy)

/-- `processOne` with the later removals computed by `later` -/
def processOneL (later : Dir A → Nat → List Name) (C : Checker A) (d : Dir A) (n : Nat) (es : List Edit) :
    List (Act A) × Status :=
  match completeActs d n with
  | none => ([], .corrupt)
  | some a1 =>
    let d1 := run d a1
    if d.vM = some n then (a1, .ok)
    else if d1.vstrs ≠ [] then (a1, .panic)
    else
      match checkAll C d1 es, plan C.asWas (later d1 n) es with
      | some o, some names =>
        match names.find? (fun x => !d1.trash.contains x) with
        | some x => (a1, .backoff x)
        | none =>
          let i := Act.intent n es names o
          match completeActs (d1.apply i) n with
          | some a2 => (a1 ++ i :: a2, .ok)
          | none => (a1 ++ [i], .corrupt)
      | _, _ => (a1, .corrupt)

def passFromL (later : Dir A → Nat → List Name) (C : Checker A) : Dir A → List (Nat × List Edit) → List (Act A) × Status
  | _, [] => ([], .ok)
  | d, (n, es) :: rest =>
    let r := processOneL later C d n es
    match r.2 with
    | .ok => let r' := passFromL later C (run d r.1) rest; (r.1 ++ r'.1, r'.2)
    | st => (r.1, st)

/-- `LsmVerifier::verify` with `last_removals` ranging over what `later` says -/
def passL (later : Dir A → Nat → List Name) (C : Checker A) (d : Dir A) : List (Act A) × Status :=
  passFromL later C d (entries d)

end Blue.Verifier
