import Blue.Model.Cur
/-! Two kinds of child under one merging cursor (`Box<dyn Cursor>` in the code): the tagged union. -/
namespace Blue.Cursor
variable {E : Type}

def Cur.sum (C D : Cur E) : Cur E where
  σ := C.σ ⊕ D.σ
  first := fun s => match s with | .inl c => .inl (C.first c) | .inr d => .inr (D.first d)
  last := fun s => match s with | .inl c => .inl (C.last c) | .inr d => .inr (D.last d)
  next := fun s => match s with | .inl c => .inl (C.next c) | .inr d => .inr (D.next d)
  prev := fun s => match s with | .inl c => .inl (C.prev c) | .inr d => .inr (D.prev d)
  seek := fun p s => match s with | .inl c => .inl (C.seek p c) | .inr d => .inr (D.seek p d)
  kv := fun s => match s with | .inl c => C.kv c | .inr d => D.kv d
  ok := fun s => match s with | .inl c => C.ok c | .inr d => D.ok d

end Blue.Cursor
