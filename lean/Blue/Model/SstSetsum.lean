import Blue.Model.Setsum
import Blue.Model.SstBuild
/-! The setsum `SstBuilder` keeps (`self.setsum`, sst/src/setsum.rs over setsum/src/lib.rs) and the
    32 bytes `seal` writes into the final block (`setsum: builder.setsum.digest()`).

    sst/src/setsum.rs:
      `put`: `self.setsum.insert_vectored(&[&[8], key, &timestamp.to_le_bytes(), value])`
      `del`: `self.setsum.insert_vectored(&[&[9], key, &timestamp.to_le_bytes()])`
    setsum/src/lib.rs `item_vectored_to_state`: `hasher.update(piece)` for each piece in order, then
    `hash_to_state(hasher.finalize())`; `insert_vectored`: `state = add_state(state, item_state)`.

    SHA3-256 is a PARAMETER, as in C14: `hash` maps the bytes fed to the hasher (the pieces one
    after the other: a streaming hash of pieces is the hash of their concatenation) to the eight
    little-endian 32-bit words of the 32 hash bytes. -/
namespace Blue.SstSetsum
open Blue.Block Blue.Sst

/-- the marker pieces `&[8]` (put) and `&[9]` (del) -/
def PUT_MARK : Nat := 8
def DEL_MARK : Nat := 9

/-- `timestamp.to_le_bytes()` of a `u64` -/
def tsBytes (ts : Nat) : List Nat := Blue.Block.le64 ts

/-- the slices `sst::Setsum::put` / `del` hand to `insert_vectored`, in order -/
def entryPieces (e : KV) : List (List Nat) :=
  match e.val with
  | some v => [[PUT_MARK], e.key, tsBytes e.ts, v]
  | none => [[DEL_MARK], e.key, tsBytes e.ts]

/-- what the hasher has consumed after `for piece in item { hasher.update(piece) }` -/
def entryBytes (e : KV) : List Nat := (entryPieces e).flatten

/-- the eight hash words of an entry (`hash` = SHA3-256 read as eight little-endian `u32`) -/
def entryWords (hash : List Nat → Vector Nat 8) (e : KV) : Vector Nat 8 := hash (entryBytes e)

/-- `item_vectored_to_state`: the entry's element of the C14 group -/
def entryItem (hash : List Nat → Vector Nat 8) (e : KV) : Blue.Setsum.State :=
  Blue.Setsum.hashToState (entryWords hash e)

/-- `SstBuilder.setsum` after the entries `es` were accepted: `Setsum::default()` (all columns
    zero), then one `insert_vectored` per accepted `put` / `del`, in the order of acceptance -/
def builderSetsum (hash : List Nat → Vector Nat 8) (es : List KV) : Blue.Setsum.State :=
  es.foldl (fun st e => Blue.Setsum.insert st (entryWords hash e)) Blue.Setsum.zero

/-- the group sum of the entries' items (`Σ_{e ∈ es} entryItem hash e`, written with C14's `add`) -/
def itemSum (hash : List Nat → Vector Nat 8) (es : List KV) : Blue.Setsum.State :=
  es.foldr (fun e acc => Blue.Setsum.add (entryItem hash e) acc) Blue.Setsum.zero

/-- `builder.setsum.digest()`: what `seal` puts into `FinalBlock.setsum` -/
def sealSetsum (hash : List Nat → Vector Nat 8) (s : SB) : List Nat :=
  Blue.Setsum.digest (builderSetsum hash s.accepted)

/-- the 32 bytes of a hash read as `hash_to_state` reads them: eight little-endian `u32`
    (`u32::from_le_bytes(hash[4i..4i+4])`) -/
def wordsOfHashBytes (d : List Nat) : Vector Nat 8 :=
  Vector.ofFn fun i : Fin 8 =>
    Blue.Setsum.le32 (d.getD (4 * i.1) 0) (d.getD (4 * i.1 + 1) 0) (d.getD (4 * i.1 + 2) 0) (d.getD (4 * i.1 + 3) 0)

/-- a toy stand-in for SHA3-256 used by the closed instances only: word `i` is a positional fold of
    the bytes with multiplier `i + 2`, kept below 2^32 -/
def toyHash (bs : List Nat) : Vector Nat 8 :=
  Vector.ofFn fun i : Fin 8 => (bs.foldl (fun acc b => acc * (i.1 + 2) + b + 1) (i.1 + 4294967290)) % 4294967296

end Blue.SstSetsum
