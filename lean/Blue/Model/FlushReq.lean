/-! The flush-request hand-off of `KeyValueStore` (lsmtk/src/kvs/mod.rs) between the writers and
    the flush thread, one event per critical section of the `state` mutex.

    What the code does (and the obvious model would not): **no writer ever waits for a flush.**
    * `write` (under `state`): `seq_no += 1`; `if mem.approximate_size() >= memtable_size_bytes`
      then `rollover_memtable`: `imm_trigger = max(imm_trigger, mem_seq_no)` and
      `cnd_needs_memtable_flush.notify_one()` — and the write goes on into the SAME (full)
      memtable.  Nothing in `write` looks at `imm`, and nothing in the crate waits on
      `cnd_memtable_rolled_over` (its only use is the `notify_all` of the flush thread).
    * `_memtable_thread`: `while imm_trigger < mem_seq_no { cnd_needs_memtable_flush.wait }`, then
      the rotation in the same critical section (`imm = Some(mem)`, local `imm_trigger =
      mem_seq_no`, fresh `mem`, `mem_seq_no = seq_no`, `seq_no += 1`; then the wait list, which is
      `Blue.KvsWake`); outside the mutex the sst is built and `tree._ingest`ed — this is where the
      flush thread is the INGESTER of `Blue.Stall` and may sleep on `stall`; then under the mutex
      `imm = None`, `state.imm_trigger = imm_trigger` (the LOCAL value: an assignment, not a
      `max`), `cnd_memtable_rolled_over.notify_all()`.

    So the only wait of the hand-off is the flush thread's, and the only back-pressure a full
    level 0 exerts is on the flush thread: writers keep filling the mutable memtable. -/
namespace Blue.FlushReq

/-- where the flush thread is -/
inductive FPc where
  /-- about to take `state` and test `imm_trigger < mem_seq_no` -/
  | check
  /-- in `cnd_needs_memtable_flush.wait` -/
  | asleep
  /-- rotated, building / ingesting the immutable memtable; `trig`: its local `imm_trigger` -/
  | flushing (trig : Nat)
deriving DecidableEq, Repr

structure St where
  seqNo : Nat
  memSeqNo : Nat
  immTrigger : Nat
  /-- `imm.is_some()` -/
  imm : Bool
  /-- `mem.approximate_size() >= memtable_size_bytes` -/
  memFull : Bool
  flush : FPc
  /-- rotations so far (ghost) -/
  rotations : Nat := 0
deriving DecidableEq, Repr

inductive Ev where
  /-- a writer's first critical section (`write`) -/
  | write
  /-- an insert takes the mutable memtable to its size limit (outside the mutex) -/
  | grow
  /-- the flush thread's test: sleep, or rotate -/
  | flushCheck
  /-- the flush thread's last critical section: `imm = None`, `imm_trigger = ` local value -/
  | flushDone
  /-- `Condvar::wait` returns unprompted -/
  | spur
deriving DecidableEq, Repr

/-- `KeyValueStore::new`: `imm_trigger = 0`, `mem_seq_no = seq_no`, `seq_no += 1` -/
def init (seqNo : Nat) : St := ⟨seqNo + 1, seqNo, 0, false, false, .check, 0⟩

def step (s : St) : Ev → St
  | .write =>
    if s.memFull then
      { s with seqNo := s.seqNo + 1, immTrigger := max s.immTrigger s.memSeqNo,
               flush := if s.flush = .asleep then .check else s.flush }
    else { s with seqNo := s.seqNo + 1 }
  | .grow => { s with memFull := true }
  | .flushCheck =>
    match s.flush with
    | .check =>
      if s.immTrigger < s.memSeqNo then { s with flush := .asleep }
      else { s with imm := true, flush := .flushing s.memSeqNo, memSeqNo := s.seqNo, seqNo := s.seqNo + 1,
                    memFull := false, rotations := s.rotations + 1 }
    | _ => s
  | .flushDone =>
    match s.flush with
    | .flushing trig => { s with imm := false, immTrigger := trig, flush := .check }
    | _ => s
  | .spur =>
    match s.flush with
    | .asleep => { s with flush := .check }
    | _ => s

def run (s : St) (evs : List Ev) : St := evs.foldl step s

/-- a flush has been asked for and not yet started -/
def requested (s : St) : Bool := decide (s.memSeqNo ≤ s.immTrigger)

def invB (s : St) : Bool :=
  decide (s.memSeqNo < s.seqNo) && decide (s.immTrigger ≤ s.memSeqNo)
    && (match s.flush with
        | .asleep => decide (s.immTrigger < s.memSeqNo)
        | .flushing trig => decide (trig < s.memSeqNo) && s.imm
        | .check => true)

end Blue.FlushReq
