/-! Backward search over ψ (`scrunch::PsiDocument::backwards_search`, `Psi::constrain`), with the
    index given abstractly as the list of the text's suffixes in suffix-array order. -/
namespace Blue.Csa

def lexLt : List Nat → List Nat → Bool
  | [], [] => false
  | [], _ :: _ => true
  | _ :: _, [] => false
  | a :: as, b :: bs => decide (a < b) || (decide (a = b) && lexLt as bs)

/-- the `i`-th smallest suffix -/
def str (l : List (List Nat)) (i : Nat) : List Nat := l.getD i []

/-- `psi[i] = isa[sa[i] + 1]`: the rank of the suffix one symbol shorter -/
def psi (l : List (List Nat)) (i : Nat) : Nat := l.idxOf (str l i).tail

/-- how many entries of `psi[r0 ..= r1]` are below `a` — where `binary_search_by` lands in that
    sorted slice -/
def countLt (l : List (List Nat)) (r0 r1 a : Nat) : Nat :=
  ((List.range (r1 + 1 - r0)).filter (fun d => decide (psi l (r0 + d) < a))).length

/-- `Psi::constrain(range, into)` with `into` half open: the sub-range of `range` whose ψ values
    fall into `into` -/
def constrain (l : List (List Nat)) (r : Nat × Nat) (into : Nat × Nat) : Nat × Nat :=
  (r.1 + countLt l r.1 r.2 into.1, r.1 + countLt l r.1 r.2 into.2)

/-- `backwards_search`: the last symbol's block, then one `constrain` per preceding symbol;
    `rangeFor` is `Sigma::sa_range_for` (closed), results are half open.  The empty needle is
    "everything except the artificial end marker": the code returns the closed `(1, psi.len() - 1)`,
    i.e. `[1, l.length)` (rank 0 is the end marker's own suffix) -/
def backwardSearch (l : List (List Nat)) (rangeFor : Nat → Nat × Nat) : List Nat → Nat × Nat
  | [] => (1, l.length)
  | [t] => ((rangeFor t).1, (rangeFor t).2 + 1)
  | c :: w => constrain l (rangeFor c) (backwardSearch l rangeFor w)

/-- `count` -/
def count (l : List (List Nat)) (rangeFor : Nat → Nat × Nat) (needle : List Nat) : Nat :=
  (backwardSearch l rangeFor needle).2 - (backwardSearch l rangeFor needle).1

/-- the text position of the `i`-th smallest suffix of a text of length `n` (`sa[i]`) -/
def saOf (l : List (List Nat)) (n i : Nat) : Nat := n - (str l i).length

end Blue.Csa
