import Blue.Model.BitVec
import Blue.Model.BitArr
import Blue.Model.Csa
import Blue.Model.CsaDoc
/-! `scrunch::sampled::SampledArray` (a sparse presence vector plus bit-packed values),
    `scrunch::sa::SampledSuffixArray` (every suffix-array entry whose text position is a multiple of
    the stride, ψ-walk to the next sample) and `scrunch::isa::SampledInverseSuffixArray` (the inverse
    suffix array at the record boundaries), and the two `Document` queries that go through them
    (`search` and `retrieve`).

    Conventions: `l` is the list of the non-empty suffixes of the text-with-end-marker in
    suffix-array order (as in `Blue.Csa`), `sa[i] = saOf l l.length i`.

    What is abstracted: the presence vector is its decoded `List Bool` with the `BitVector` trait's
    `access_rank` (the code stores it as a `sparse::BitVector` with branch 128: `Blue.BvSparse` is
    the model of that encoding and is proved to answer `access_rank` like this); the protobuf framing
    of the three fields; `usize`/`u64` overflow.  The stride is `2^sampling` in the code (shifts);
    the model takes any stride `st` (`x >> s = x / 2^s`, `x << s = x * 2^s`, `x % (1 << s)`). -/
namespace Blue.Sampled
open Blue.BitArr Blue.Csa

/-- `ilog2(next_power_of_two(m))` for `m ≥ 1`: the least `e` with `m ≤ 2^e` -/
def ceilLog2 (m : Nat) : Nat := if m ≤ 1 then 0 else Nat.log2 (m - 1) + 1

/-- `bits_required(max)` of lib.rs: `ilog2(next_power_of_two(max(max, 1))) + 1` -/
def bitsRequired (m : Nat) : Nat := ceilLog2 (max m 1) + 1

/-- the `BitVector` trait's `access_rank` on a plain bit array -/
def accessRank (bits : List Bool) (x : Nat) : Option (Bool × Nat) :=
  if x ≤ bits.length then some (bits.getD x false, (bits.take x).count true) else none

/-- the bit array of length `len` with ones exactly at `offs` (`from_indices(_, len, offs)`) -/
def presentBits (len : Nat) (offs : List Nat) : List Bool := (List.range len).map (fun i => offs.contains i)

/-- the branch factor of the presence vector: `from_indices(128, …)` in `SampledArray::construct` -/
def presentBranch : Nat := 128

/-- the branch factor of the record-boundary vector: `from_indices(16, …)` in `PsiDocument::construct` -/
def boundaryBranch : Nat := 16

/-- `SA::construct_u32(6, …)` / `SA::construct(6, …)` in `PsiDocument::construct`: the suffix array is
    sampled at the text positions that are multiples of `2^6` -/
def saSampling : Nat := 6

/-- `SampledArray { bits, values, present }` -/
structure SArr where
  width : Nat
  values : List Bool
  present : List Bool

/-- `SampledArray::construct(values)`: `None` is the panic on an empty list
    (`values[values.len() - 1]`); `max().unwrap_or(1)` is therefore always the maximum -/
def construct (vals : List (Nat × Nat)) : Option SArr :=
  match vals.getLast? with
  | none => none
  | some last =>
    let w := bitsRequired ((vals.map (·.2)).foldl max 0)
    some ⟨w, sealBits (packAll (vals.map (·.2)) w), presentBits (last.1 + 1) (vals.map (·.1))⟩

/-- `SampledArray::lookup(x)`: `access_rank` on the presence vector, then the `rank`-th value -/
def lookup (s : SArr) (x : Nat) : Option Nat :=
  match accessRank s.present x with
  | none => none
  | some (a, r) => if a then load s.values (s.width * r) s.width else none

/-! ### sampled suffix array -/

/-- the loop of `SampledSuffixArray::construct`: `(idx, sa >> sampling)` for every entry with
    `sa % (1 << sampling) == 0` -/
def saSamplesFrom (st : Nat) : Nat → List Nat → List (Nat × Nat)
  | _, [] => []
  | i, p :: t => if p % st = 0 then (i, p / st) :: saSamplesFrom st (i + 1) t else saSamplesFrom st (i + 1) t

/-- `SampledSuffixArray { sampling, zero, sampled }` with `stride = 2^sampling` -/
structure Ssa where
  stride : Nat
  zero : Nat
  sampled : SArr

/-- `SampledSuffixArray::construct(sampling, sa)` (`zero = sa[0]`; `None` also stands for the panic
    on an empty `sa`) -/
def ssaConstruct (st : Nat) (sa : List Nat) : Option Ssa :=
  match sa.head?, construct (saSamplesFrom st 0 sa) with
  | some z, some s => some ⟨st, z, s⟩
  | _, _ => none

/-- `SampledSuffixArray::lookup(idx)`: walk ψ until rank 0 or a sampled rank; `k` counts the steps.
    The code's loop is unbounded; the model's fuel is spent only if ψ never reaches a sample. -/
def ssaWalk (psi : Nat → Option Nat) (s : Ssa) : Nat → Nat → Nat → Option Nat
  | 0, _, _ => none
  | f + 1, idx, k =>
    if idx = 0 then some (s.zero - k)
    else match lookup s.sampled idx with
      | some v => some (v * s.stride - k)
      | none =>
        match psi idx with
        | none => none
        | some j => ssaWalk psi s f j (k + 1)

/-- `Psi::lookup` of the reference ψ: `psi.get(idx)` -/
def psiAt (l : List (List Nat)) (idx : Nat) : Option Nat := if idx < l.length then some (psi l idx) else none

/-- the exact suffix array of the index -/
def saList (l : List (List Nat)) : List Nat := (List.range l.length).map (fun i => saOf l l.length i)

def ssaLookup (l : List (List Nat)) (s : Ssa) (idx : Nat) : Option Nat := ssaWalk (psiAt l) s (l.length + 1) idx 0

/-- ψ tabulated once (what the driver passes instead of recomputing `psi l idx` at every step) -/
def psiTable (l : List (List Nat)) : List Nat := (List.range l.length).map (fun i => psi l i)

def psiTab (tab : List Nat) (idx : Nat) : Option Nat := tab[idx]?

/-- `ssaLookup` over a tabulated ψ -/
def ssaLookupT (tab : List Nat) (s : Ssa) (idx : Nat) : Option Nat := ssaWalk (psiTab tab) s (tab.length + 1) idx 0

/-! ### sampled inverse suffix array -/

/-- the loop of `SampledInverseSuffixArray::construct(isa, to_sample)`: `None` is
    `Err(InvalidInverseSuffixArray)` (a position outside the text or not above the previous one;
    `lo` is one more than the previous position, `0` at the start) -/
def isaSamples (isaAt : Nat → Nat) (n : Nat) : Nat → List Nat → Option (List (Nat × Nat))
  | _, [] => some []
  | lo, b :: t =>
    if b ≥ n ∨ b < lo then none
    else (isaSamples isaAt n (b + 1) t).map ((b, isaAt b) :: ·)

def sisaConstruct (l : List (List Nat)) (toSample : List Nat) : Option SArr :=
  (isaSamples (Blue.CsaDoc.isa l) l.length 0 toSample).bind construct

/-- `SampledInverseSuffixArray::lookup(idx)` -/
def sisaLookup (s : SArr) (idx : Nat) : Option Nat := lookup s idx

/-! ### the document queries that go through the samples -/

def allSome {α : Type} : List (Option α) → Option (List α)
  | [] => some []
  | none :: _ => none
  | some x :: t => (allSome t).map (x :: ·)

/-- `PsiDocument::search`: backward search, then `sa.lookup` of every rank of the range, sorted
    (`None` = an `Err` from a lookup) -/
def searchS (l : List (List Nat)) (s : Ssa) (needle : List Nat) : Option (List Nat) :=
  let r := backwardSearch l (Blue.CsaDoc.sigmaRange l) needle
  (allSome ((List.range (r.2 - r.1)).map (fun d => ssaLookup l s (r.1 + d)))).map
    (fun ps => ps.foldr Blue.CsaDoc.insertNat [])

/-- `search` over a tabulated ψ, with the symbol ranges (`Sigma::sa_range_for`) as a parameter -/
def searchRT (rangeFor : Nat → Nat × Nat) (tab : List Nat) (l : List (List Nat)) (s : Ssa) (needle : List Nat) :
    Option (List Nat) :=
  let r := backwardSearch l rangeFor needle
  (allSome ((List.range (r.2 - r.1)).map (fun d => ssaLookupT tab s (r.1 + d)))).map
    (fun ps => ps.foldr Blue.CsaDoc.insertNat [])

/-- `searchS` over a tabulated ψ -/
def searchT (tab : List Nat) (l : List (List Nat)) (s : Ssa) (needle : List Nat) : Option (List Nat) :=
  searchRT (Blue.CsaDoc.sigmaRange l) tab l s needle

/-- `PsiDocument::retrieve`: as `Blue.CsaDoc.retrieve`, with the start rank read from the sampled
    inverse suffix array -/
def retrieveS (l : List (List Nat)) (si : SArr) (bits : List Bool) (r : Nat) : Option (List Nat) :=
  match Blue.BitVec.select bits r with
  | none => none
  | some start =>
    let limit := (Blue.BitVec.select bits (r + 1)).getD bits.length
    if start > limit then none
    else match sisaLookup si start with
      | none => none
      | some idx => some (Blue.CsaDoc.walk l (limit - start) idx)

end Blue.Sampled
