import Blue.Model.Mani
import Blue.Model.ManiCrash
import Blue.Model.Crc32c
/-! The manifest directory as the client drives it: the text-format states and edits (`Blue.Mani`)
    as the algebra of the system-call model (`Blue.ManiCrash`), the rollover rule at the end of
    `Manifest::_apply`, `Manifest::verify`'s chain check, and the bytes of the files. -/
namespace Blue.Mani
open Blue.ManiCrash

/-- states and edits of the text format: `apply_edit` and `to_edit` -/
def maniAlgebra : Algebra State Edit :=
  ⟨⟨[], []⟩, applyEdit, fun st => ⟨[], st.strs, st.info⟩⟩

/-- `Manifest::verify`'s chaining check: every fragment after the first starts with the roll-up of
    the state the previous fragment replays to -/
def chainOk : List (List Edit) → Bool
  | a :: b :: rest => decide (b.head? = some (maniAlgebra.rollup (replay maniAlgebra a))) && chainOk (b :: rest)
  | _ => true

/-- the number of errors `Manifest::verify` reports on readable, gap-free fragments -/
def chainErrs : List (List Edit) → Nat
  | a :: b :: rest =>
    (if b.head? = some (maniAlgebra.rollup (replay maniAlgebra a)) then 0 else 1) + chainErrs (b :: rest)
  | _ => 0

/-- MANIFEST.1, MANIFEST.2, …, MANIFEST -/
def fragments (fs : Fs Edit) : List (List Edit) := fs.backups ++ [fs.mani.durable ++ fs.mani.pending]

/-- the bytes of a file that holds these edits -/
def fileBytes (crc : List Nat → Nat) (es : List Edit) : List Nat := es.flatMap (encodeEdit crc)

/-- the test at the end of `_apply`: `on_disk_bytes > log_rollover_ratio * in_memory_bytes &&
    !was_empty`, where MANIFEST held `onDisk` and the edits applied so far were `sofar` -/
def rollsOver (crc : List Nat → Nat) (ratio : Nat) (onDisk sofar : List Edit) (e : Edit) : Bool :=
  let before := replay maniAlgebra sofar
  let after := applyEdit before e
  decide ((fileBytes crc (onDisk ++ [e])).length > ratio * after.size) && !before.strs.isEmpty

/-- what a client does with one manifest directory -/
inductive Event where
  | edit (e : Edit)   -- `Manifest::apply`
  | rollover          -- `Manifest::rollover`
  | reopen            -- drop the handle, `Manifest::open` (rolls over when MANIFEST exists)
deriving Repr

/-- the calls the events turn into: `mani` = the edits MANIFEST holds (empty = no MANIFEST yet),
    `sofar` = all edits applied.  An explicit rollover without a MANIFEST is not a program (`none`). -/
def schedule (crc : List Nat → Nat) (ratio : Nat) :
    List Event → List Edit → List Edit → Option (List (Client Edit))
  | [], _, _ => some []
  | .edit e :: evs, mani, sofar =>
    if rollsOver crc ratio mani sofar e then
      (schedule crc ratio evs [maniAlgebra.rollup (replay maniAlgebra (sofar ++ [e]))] (sofar ++ [e])).map
        (fun cs => .editRoll e :: cs)
    else (schedule crc ratio evs (mani ++ [e]) (sofar ++ [e])).map (fun cs => .edit e :: cs)
  | .rollover :: evs, mani, sofar =>
    if mani.isEmpty then none
    else (schedule crc ratio evs [maniAlgebra.rollup (replay maniAlgebra sofar)] sofar).map (fun cs => .rollover :: cs)
  | .reopen :: evs, mani, sofar =>
    if mani.isEmpty then schedule crc ratio evs mani sofar
    else (schedule crc ratio evs [maniAlgebra.rollup (replay maniAlgebra sofar)] sofar).map (fun cs => .rollover :: cs)

/-- the empty directory -/
def emptyFs : Fs Edit := { mani := ⟨[], []⟩, tmp := none, backups := [] }

/-- `Manifest::open` reading MANIFEST: the state, or `none` for a corruption error -/
def openBytes (crc : List Nat → Nat) (bytes : List Nat) : Option State :=
  let r := readEdits crc (bytes.length + 2) bytes Edit.empty
  if r.2 then none else some (replay maniAlgebra r.1)

end Blue.Mani
