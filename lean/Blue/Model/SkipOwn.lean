import Blue.Model.SkipLife
/-! Ownership of the nodes of a `skipfree::SkipList` as a transition system with a reference count
    and a set of released nodes (the operational reading of `Arc<Head>` + `Drop for Head`; the
    model DESIGN C07 announced).

    `Blue.SkipLife` *defines* the number of live nodes as `if holders = 0 then 0 else nodes`; its
    two theorems unfold that definition.  Here nothing is defined that way.  The state carries
    the strong count `rc` of the shared head as a counter that the events increment and decrement
    (as `Arc::clone` / `Drop for Arc` do), the list `freed` of node ids that have been released
    (`Box::from_raw` in the destructor, which runs when a decrement reaches zero), and a ghost flag
    `uaf` that an event sets when it dereferences nodes while some node has been released.
    Holders are the list handle and the iterators; the events are those of `Blue.SkipLife.Op`
    (`insert`, `iter` = iterator opened, `cloneIter`, `dropList`, `dropIter`, `use` = a dereference
    through an iterator).

    `asFound = true` is the ownership of the code as it was (finding D-4): `SkipList::drop` released
    every node although iterators still shared the head pointer. -/
namespace Blue.SkipOwn
open Blue.SkipLife (Op)

structure St where
  /-- nodes allocated so far (ids `0 … nodes-1`, the head is `0`) -/
  nodes : Nat := 1
  listHeld : Bool := true
  /-- one flag per iterator ever made: still held? -/
  iters : List Bool := []
  /-- strong count of the shared head -/
  rc : Nat := 1
  /-- ids of the nodes that have been released -/
  freed : List Nat := []
  /-- ghost: some event dereferenced nodes after a node had been released -/
  uaf : Bool := false
deriving DecidableEq, Repr

def held (s : St) (j : Nat) : Bool := s.iters.getD j false

/-- a handle goes away: the count drops, and the destructor of the head — releasing every node —
    runs if it reached zero -/
def release (s : St) : St :=
  let rc' := s.rc - 1
  { s with rc := rc', freed := if rc' = 0 then List.range s.nodes else s.freed }

/-- an event walks the nodes (search of `insert`, `seek` / `next` / `key` of an iterator): a
    use after free if anything has been released -/
def deref (s : St) : St := { s with uaf := s.uaf || !s.freed.isEmpty }

/-- one event; `none` = it goes through a handle that is not held (the type system forbids it) -/
def step (asFound : Bool) (s : St) : Op → Option St
  | .insert => if s.listHeld then some { deref s with nodes := s.nodes + 1 } else none
  | .iter => if s.listHeld then some { s with iters := s.iters ++ [true], rc := s.rc + 1 } else none
  | .cloneIter j => if held s j then some { s with iters := s.iters ++ [true], rc := s.rc + 1 } else none
  | .dropList =>
    if s.listHeld then
      let s1 := release { s with listHeld := false }
      some (if asFound then { s1 with freed := List.range s.nodes } else s1)
    else none
  | .dropIter j => if held s j then some (release { s with iters := s.iters.set j false }) else none
  | .use j => if held s j then some (deref s) else none

def run (asFound : Bool) : St → List Op → Option St
  | s, [] => some s
  | s, op :: ops =>
    match step asFound s op with
    | some s' => run asFound s' ops
    | none => none

/-- nodes not yet released -/
def liveNodes (s : St) : Nat := s.nodes - s.freed.length

/-- the state of `Blue.SkipLife` this state shows -/
def abs (s : St) : Blue.SkipLife.St := ⟨s.nodes, s.listHeld, s.iters⟩

end Blue.SkipOwn
