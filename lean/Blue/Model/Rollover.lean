/-! Memtable rollover and flush as seen by a reader's snapshot `(mem, imm, version)` taken under the
    store's mutex (`KeyValueStore::load` / `range_scan`): write into `mem`; rotate `mem → imm` (only
    when `imm` is empty); install the version that contains the flushed file (tree side, no store
    mutex); clear `imm`.  Entries are their sequence numbers. -/
namespace Blue.Rollover

structure St where
  mem : List Nat
  imm : Option (List Nat)
  /-- the flushed files of the installed version, newest first -/
  ver : List (List Nat)
  /-- the immutable memtable's file is in the installed version -/
  installed : Bool
  next : Nat
deriving DecidableEq, Repr

inductive Ev where
  | write
  | rotate
  | install
  | clear
deriving DecidableEq, Repr

def step (s : St) : Ev → St
  | .write => { s with mem := s.next :: s.mem, next := s.next + 1 }
  | .rotate => match s.imm with
    | none => { s with imm := some s.mem, mem := [], installed := false }
    | some _ => s
  | .install => match s.imm with
    | some m => if s.installed then s else { s with ver := m :: s.ver, installed := true }
    | none => s
  | .clear => if s.installed then { s with imm := none, installed := false } else s

def init : St := ⟨[], none, [], false, 0⟩

/-- what a snapshot taken now searches, in search order -/
def snapshot (s : St) : List (List Nat) :=
  s.mem :: (match s.imm with | some m => [m] | none => []) ++ s.ver

end Blue.Rollover
