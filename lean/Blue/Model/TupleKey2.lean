/-! Compact tuple keys (tuple_key2/src/lib.rs): length-tagged big-endian integers, byte strings
    with `00 → 00 ff` escaping and a `00 00` terminator.  Bytes are `Nat`s below 256. -/
namespace Blue.TupleKey2

def UNSIGNED_BASE : Nat := 0x22
def SIGNED_NEG_BASE : Nat := 0x10
def SIGNED_NONNEG_BASE : Nat := 0x19
def UNIT_TAG : Nat := 0x2b

/-- `minimal_u64_len`: the least `L` with `v < 256^L` (`ilog2 v / 8 + 1`, 0 for 0) -/
def minLen : Nat → Nat
  | 0 => 0
  | v+1 => minLen ((v+1) / 256) + 1
decreasing_by omega

/-- `push_big_endian_suffix`: the low `len` bytes, most significant first -/
def bigEndian (v : Nat) : Nat → List Nat
  | 0 => []
  | len+1 => (v / 256 ^ len % 256) :: bigEndian v len

def encodeU64 (v : Nat) : List Nat := (UNSIGNED_BASE + minLen v) :: bigEndian v (minLen v)

/-- `encode_i64` on a mathematical integer in `[-2^63, 2^63)` -/
def encodeI64 (v : Int) : List Nat :=
  if v < 0 then
    let magnitude := (-v - 1).toNat
    let len := minLen magnitude
    -- `!magnitude`, low `len` bytes
    (SIGNED_NEG_BASE + (8 - len)) :: bigEndian (256 ^ len - 1 - magnitude) len
  else
    let len := minLen v.toNat
    (SIGNED_NONNEG_BASE + len) :: bigEndian v.toNat len

/-- `encode_bytes` -/
def encodeBytes : List Nat → List Nat
  | [] => [0, 0]
  | b :: bs => if b = 0 then 0 :: 0xff :: encodeBytes bs else b :: encodeBytes bs

def encodeUnit : List Nat := [UNIT_TAG]

/-- byte-wise lexicographic "less than" (`<[u8] as Ord>`) -/
def blt : List Nat → List Nat → Bool
  | [], [] => false
  | [], _ :: _ => true
  | _ :: _, [] => false
  | a :: as, b :: bs => if a < b then true else if b < a then false else blt as bs

/-- `TupleKeyParser::bytes` (fuel = input length) -/
def decodeBytes : Nat → List Nat → Option (List Nat × List Nat)
  | 0, _ => none
  | _+1, [] => none
  | f+1, b :: rest =>
    if b = 0 then
      match rest with
      | [] => none
      | 0 :: rest' => some ([], rest')
      | 0xff :: rest' => (decodeBytes f rest').map (fun r => (0 :: r.1, r.2))
      | _ :: _ => none
    else (decodeBytes f rest).map (fun r => (b :: r.1, r.2))

def fromBigEndian : List Nat → Nat
  | [] => 0
  | b :: bs => b * 256 ^ bs.length + fromBigEndian bs

/-- `TupleKeyParser::u64` -/
def decodeU64 (bs : List Nat) : Option (Nat × List Nat) :=
  match bs with
  | [] => none
  | tag :: rest =>
    if UNSIGNED_BASE ≤ tag ∧ tag ≤ UNSIGNED_BASE + 8 then
      let len := tag - UNSIGNED_BASE
      if rest.length < len then none
      else
        let v := fromBigEndian (rest.take len)
        if minLen v = len then some (v, rest.drop len) else none
    else none

end Blue.TupleKey2
