import Blue.Model.KvsWrite
/-! `KeyValueStore` under concurrency (lsmtk/src/kvs/mod.rs): `write`, `load` / `range_scan` and
    `_memtable_thread` as one small-step system, one step per critical section or lock-free access.
    It joins `Blue.KvsWrite` (sequence numbers, entry-by-entry inserts, in-order return) with
    `Blue.Rollover` (rotate, install, clear) through the wait list both of them go through:

    * writer: `[lock: seq := ++seq_no; pick mem; link]` · `[log append]` · `[insert e₁]` … `[insert eₙ]`
      · `[lock: wait until head; unlink; visible := seq]`
    * a write that fails (`wFail`: the log refuses the batch — empty, an entry too long, too large —
      before anything is appended; `MemTable::write` cannot fail): it has taken its sequence number
      and its place in the wait list, it inserts nothing, unlinks and publishes nothing.  Its number
      is a gap in the published sequence for ever (`failed`).  The step is enabled wherever the
      ticket stands in the list (the store as found drops the guard on its early return); the
      repaired store lets a failed write leave in its turn, as head, and the driver checks that on
      every recorded trace (`failedLeavesAtHead`).
    * flush thread: `[lock: imm := mem; mem := new; mem_seq_no := seq_no++; link]` ·
      `[lock: wait until head; unlink]` · `[install version]` · `[lock: imm := none]`
    * reader: `[lock: mem, imm; clone the tree version (its own step, under the version mutex); ts]`
      · lookups in the snapshot, pruned at `ts`.  The model lets the clone (`rTree`) happen at any
      moment before `rSnap`, so that a store that takes its tree version outside the critical section
      is a run of it too; `Snap.clean` records whether that made a difference.

    `completed = false` is the store as found: `ts` is the last *assigned* sequence number (D-6).
    `completed = true` is the repaired store: `ts` is the sequence number of the last writer that
    has left the wait list (`visible`).  Memtables are named by the number they carry
    (`mem_seq_no`); a table's entries stay addressable after it has been flushed, as they do for
    a reader that holds the `Arc<MemTable>` or finds the same entries in the flushed file. -/
namespace Blue.KvsConc
open Blue.KvsWrite (Entry)

/-- who is linked in the wait list: a writer (its sequence number) or the flush thread (the number
    of the memtable it has just created) -/
inductive Ticket where
  | w (seq : Nat)
  | f (mem : Nat)
deriving DecidableEq, Repr

def Ticket.wseq? : Ticket → Option Nat
  | .w q => some q
  | .f _ => none

structure Writer where
  seq : Nat
  /-- the memtable picked under the lock -/
  tbl : Nat
  /-- entries still to be inserted -/
  todo : List (Nat × Option Nat)
  finished : Bool
  /-- ghost: the whole batch -/
  batch : List (Nat × Option Nat)
deriving DecidableEq, Repr

/-- what a reader searches: `mem`, `imm` and the timestamp are taken in one critical section of the
    store mutex (`rSnap`); the tree version is taken in a step of its own (`rTree`, the clone under
    the tree's version mutex in `LsmTree::take_snapshot`), which the code makes inside that
    critical section -/
structure Snap where
  ts : Nat
  /-- the tables it searches: mem, imm, the flushed ones of the version it holds -/
  tbls : List Nat
  /-- ghost: no `imm := none` step of the flush thread fell between the reader's taking its tree
      version and its taking mem / imm (always so when the version is taken under the store mutex) -/
  clean : Bool
deriving DecidableEq, Repr

structure St where
  completed : Bool
  seqNo : Nat
  visible : Nat
  memId : Nat
  imm : Option Nat
  /-- the flush thread has passed the wait list: nobody writes to `imm` any more -/
  sealed : Bool
  installed : Bool
  flushed : List Nat
  /-- (table, entry), newest insert first -/
  ents : List (Nat × Entry)
  queue : List Ticket
  writers : List Writer
  /-- sequence numbers whose log append has returned -/
  logged : List Nat
  readers : List (Nat × Snap)
  /-- the number of the installed tree version (`tree.install` events number them) -/
  verId : Nat
  /-- readers that hold a tree version and have not yet taken mem / imm: (reader, (flushed tables
      of that version, ghost: no `fClear` since)) -/
  trees : List (Nat × (List Nat × Bool))
  /-- ghost: the sequence numbers of the writes that failed -/
  failed : List Nat
deriving DecidableEq, Repr

/-- the store after `open`: `seq_no`, `mem_seq_no` as `verif_state` reports them -/
def init (completed : Bool) (seqNo memId : Nat) : St :=
  ⟨completed, seqNo, seqNo, memId, none, false, false, [], [], [], [], [], [], 0, [], []⟩

inductive Ev where
  | wBegin (seq tbl : Nat) (batch : List (Nat × Option Nat))
  | wLog (seq : Nat)
  | wIns (seq idx : Nat)
  | wFin (seq : Nat)
  | fRotate (newMem oldMem : Nat)
  | fHead (newMem : Nat)
  /-- the flush's `_ingest` installs tree version `vid`, which holds the flushed table -/
  | fInstall (oldMem vid : Nat)
  | fClear (oldMem : Nat)
  /-- a compaction installs tree version `vid` (same tables, other files) -/
  | tInstall (vid : Nat)
  /-- reader `rid` clones the installed tree version, which must be number `vid` -/
  | rTree (rid vid : Nat)
  | rSnap (rid ts mem : Nat) (imm : Bool)
  /-- the write with number `seq` fails before its log append has returned: it leaves the wait
      list (from any position) without publishing its number -/
  | wFail (seq : Nat)
deriving DecidableEq, Repr

def updWriter (ws : List Writer) (seq : Nat) (f : Writer → Writer) : List Writer :=
  ws.map (fun w => if w.seq = seq then f w else w)

def findWriter (s : St) (seq : Nat) : Option Writer := s.writers.find? (fun w => w.seq = seq)

/-- the timestamp a reader takes now -/
def readTs (s : St) : Nat := if s.completed then s.visible else s.seqNo

/-- the tables a snapshot taken now, tree version included, searches -/
def liveTables (s : St) : List Nat := s.memId :: (s.imm.toList ++ s.flushed)

/-- one step; `none` = the event is not enabled in this state -/
def step (s : St) : Ev → Option St
  | .wBegin seq tbl batch =>
    if seq = s.seqNo + 1 ∧ tbl = s.memId then
      some { s with seqNo := seq, queue := s.queue ++ [Ticket.w seq],
                    writers := s.writers ++ [⟨seq, tbl, batch, false, batch⟩] }
    else none
  | .wLog seq =>
    match findWriter s seq with
    | some w => if w.finished = false ∧ seq ∉ s.logged ∧ w.todo = w.batch then some { s with logged := seq :: s.logged } else none
    | none => none
  | .wIns seq idx =>
    match findWriter s seq with
    | some w =>
      match w.todo with
      | (k, v) :: rest =>
        if w.finished = false ∧ seq ∈ s.logged ∧ idx + w.todo.length = w.batch.length then
          some { s with ents := (w.tbl, ⟨k, seq, v⟩) :: s.ents,
                        writers := updWriter s.writers seq (fun w => { w with todo := rest }) }
        else none
      | [] => none
    | none => none
  | .wFin seq =>
    match findWriter s seq with
    | some w =>
      if w.finished = false ∧ w.todo = [] ∧ seq ∈ s.logged ∧ s.queue.head? = some (Ticket.w seq) then
        some { s with visible := seq, queue := s.queue.tail,
                      writers := updWriter s.writers seq (fun w => { w with finished := true }) }
      else none
    | none => none
  | .fRotate newMem oldMem =>
    if s.imm = none ∧ oldMem = s.memId ∧ newMem = s.seqNo then
      some { s with imm := some s.memId, memId := newMem, seqNo := s.seqNo + 1, sealed := false,
                    installed := false, queue := s.queue ++ [Ticket.f newMem] }
    else none
  | .fHead newMem =>
    if s.queue.head? = some (Ticket.f newMem) ∧ s.memId = newMem ∧ s.imm.isSome = true ∧ s.sealed = false then
      some { s with queue := s.queue.tail, sealed := true }
    else none
  | .fInstall oldMem vid =>
    if s.imm = some oldMem ∧ s.sealed = true ∧ s.installed = false ∧ s.verId < vid then
      some { s with flushed := oldMem :: s.flushed, installed := true, verId := vid }
    else none
  | .fClear oldMem =>
    if s.imm = some oldMem ∧ s.installed = true then
      some { s with imm := none, installed := false, sealed := false,
                    trees := s.trees.map (fun p => (p.1, (p.2.1, false))) }
    else none
  | .tInstall vid =>
    if s.verId < vid then some { s with verId := vid } else none
  | .rTree rid vid =>
    if vid = s.verId then
      some { s with trees := (rid, (s.flushed, true)) :: s.trees.filter (fun p => p.1 ≠ rid) }
    else none
  | .rSnap rid ts mem imm =>
    match s.trees.find? (fun p => p.1 = rid) with
    | some p =>
      if ts = readTs s ∧ mem = s.memId ∧ imm = s.imm.isSome then
        some { s with readers := (rid, ⟨ts, s.memId :: (s.imm.toList ++ p.2.1), p.2.2⟩) :: s.readers,
                      trees := s.trees.filter (fun p => p.1 ≠ rid) }
      else none
    | none => none
  | .wFail seq =>
    match findWriter s seq with
    | some w =>
      if w.finished = false ∧ w.todo = w.batch ∧ seq ∉ s.logged then
        some { s with queue := s.queue.filter (fun t => decide (t ≠ Ticket.w seq)),
                      writers := s.writers.filter (fun w => decide (w.seq ≠ seq)),
                      failed := seq :: s.failed }
      else none
    | none => none

def run (s : St) : List Ev → Option St
  | [] => some s
  | e :: es =>
    match step s e with
    | some s' => run s' es
    | none => none

/-- what a reader with snapshot `sn` can see in state `s`: the entries of its tables that are not
    newer than its timestamp (the skiplist is searched at the moment of the lookup, not of the
    snapshot) -/
def view (s : St) (sn : Snap) : List Entry :=
  (s.ents.filter (fun te => decide (te.1 ∈ sn.tbls ∧ te.2.seq ≤ sn.ts))).map (·.2)

def newest (l : List Entry) : Option Entry :=
  l.foldl (fun best e => match best with
    | none => some e
    | some b => if b.seq < e.seq then some e else some b) none

/-- `load(key)` / the entry a scan shows for `key`: the newest visible version (a tombstone has
    `val = none`) -/
def lookup (s : St) (sn : Snap) (key : Nat) : Option Entry :=
  newest ((view s sn).filter (fun e => e.key = key))

/-- the value the caller gets -/
def value (s : St) (sn : Snap) (key : Nat) : Option Nat := (lookup s sn key).bind (·.val)

/-- `SkipList::insert` asserts that the key `(key, seq)` is not there yet: would the next insert
    of writer `seq` trip it (D-16, a batch naming one key twice)? -/
def dupInsert (s : St) (seq : Nat) : Bool :=
  match findWriter s seq with
  | some w =>
    match w.todo with
    | (k, _) :: _ => s.ents.any (fun te => te.1 = w.tbl ∧ te.2.key = k ∧ te.2.seq = seq)
    | [] => false
  | none => false

/-- is the table writer `seq` inserts into still open: not the immutable memtable once the flush
    thread has passed the wait list, and not a table already written out?  (A theorem for the
    model, `insert_only_into_open_table`; a monitor for recorded runs.) -/
def insertsIntoOpenTable (s : St) (seq : Nat) : Bool :=
  match findWriter s seq with
  | some w => !(s.sealed && s.imm == some w.tbl) && !(s.flushed.contains w.tbl)
  | none => true

/-- does the failing write `seq` leave the wait list in its turn, as its head?  (A monitor for
    recorded runs: the repaired `write` sends a failed write through the same in-order exit as a
    successful one; a write that leaves out of turn keeps its slot in the ring until the head
    moves — `Blue.WaitList.ring_fills_behind_one_guard`.) -/
def failedLeavesAtHead (s : St) (seq : Nat) : Bool := s.queue.head? == some (Ticket.w seq)

end Blue.KvsConc
