/-! `sst::gc::GarbageCollector::next` with the `versions = N` determiner
    (`VersionsDeterminer`), as a function from the merged, sorted input to the kept `(key, ts)`s. -/
namespace Blue.Gc

structure Ent (K : Type) where
  key : K
  ts : Nat
  tomb : Bool
deriving DecidableEq, Repr

/-- `VersionsDeterminer`: the key it last saw and the running count -/
structure VState (K : Type) where
  key : Option K
  count : Nat

variable {K : Type} [DecidableEq K]

/-- `VersionsDeterminer::retain` -/
def vRetain (n : Nat) (s : VState K) (key : K) (tombstones : List Nat) : Bool × VState K :=
  if s.key ≠ some key then
    if tombstones.isEmpty then (true, ⟨some key, 1⟩)
    else (decide (2 ≤ n), ⟨some key, 2⟩)
  else
    let c := if tombstones.isEmpty then s.count + 1 else s.count + 2
    (decide (c ≤ n), ⟨s.key, c⟩)

/-- `return_key`: the oldest of the tombstones above the value, then the value -/
def emit (key : K) (tombstones : List Nat) (ts : Nat) : List (K × Nat) :=
  match tombstones.getLast? with
  | some t => [(key, t), (key, ts)]
  | none => [(key, ts)]

/-- the collector's loop over the merged input; `kb` is `key_backing` -/
def gcLoop (n : Nat) : List (Ent K) → K → List Nat → VState K → List (K × Nat)
  | [], _, _, _ => []
  | e :: rest, kb, tombs, vs =>
    -- a different key restarts the outer loop: fresh tombstone list, new `key_backing`
    let tombs := if kb = e.key then tombs else []
    if e.tomb then gcLoop n rest e.key (tombs ++ [e.ts]) vs
    else
      let r := vRetain n vs e.key tombs
      if r.1 then emit e.key tombs e.ts ++ gcLoop n rest e.key [] r.2
      else gcLoop n rest e.key [] r.2

/-- `policy.collector(cursor, _)` drained -/
def gc (n : Nat) (m : List (Ent K)) : List (K × Nat) :=
  match m with
  | [] => []
  | e :: _ => gcLoop n m e.key [] ⟨none, 0⟩

/-- the same, one key's versions at a time (for the proofs and for reading) -/
def gcGroup (n : Nat) (key : K) : List (Ent K) → List Nat → Nat → List (K × Nat)
  | [], _, _ => []
  | e :: rest, tombs, count =>
    if e.tomb then gcGroup n key rest (tombs ++ [e.ts]) count
    else
      let c := if tombs.isEmpty then count + 1 else count + 2
      if c ≤ n then emit key tombs e.ts ++ gcGroup n key rest [] c
      else gcGroup n key rest [] c


/-! ## The policy language (`GarbageCollectionPolicy`) and its determiners

`policy.collector(cursor, now_micros)` builds a tree of determiners shaped like the policy
(`GarbageCollectionPolicy::determiner`); `GarbageCollector::next` is the same loop as `gcLoop`
with `Determiner::retain` in place of `VersionsDeterminer::retain`.  `AnyDeterminer` /
`AllDeterminer` call **every** child on every value (no short circuit: `retain |= d.retain(..)`),
so each child sees the same sequence of calls whatever the others decide. -/

/-- `GarbageCollectionPolicy` (numbers are `NonZeroU64`; the parser guarantees `1 ≤ n < 2^64`) -/
inductive Policy where
  | versions (n : Nat)
  | expires (micros : Nat)
  | any (ps : List Policy)
  | all (ps : List Policy)

/-- `Box<dyn Determiner>`: the policy tree with the run-time state of each node -/
inductive Det (K : Type) where
  | versions (n : Nat) (s : VState K)
  | expires (threshold : Nat)
  | any (ds : List (Det K))
  | all (ds : List (Det K))

section
variable {K : Type}

mutual
/-- `GarbageCollectionPolicy::determiner(now_micros)`; `k0` is the determiner's initial `key`
    (`vec![]` in the code, i.e. `some []` for byte-string keys; the theorems hold for any) -/
def Policy.det (now : Nat) (k0 : Option K) : Policy → Det K
  | .versions n => .versions n ⟨k0, 0⟩
  | .expires micros => .expires (now - micros)     -- `now_micros.saturating_sub(micros)`
  | .any ps => .any (Policy.dets now k0 ps)
  | .all ps => .all (Policy.dets now k0 ps)
def Policy.dets (now : Nat) (k0 : Option K) : List Policy → List (Det K)
  | [] => []
  | p :: ps => Policy.det now k0 p :: Policy.dets now k0 ps
end

variable [DecidableEq K]

mutual
/-- `Determiner::retain(key, tombstones, exists)`: the decision and the new state -/
def Det.retain : Det K → K → List Nat → Nat → Bool × Det K
  | .versions n s, key, tombs, _ => ((vRetain n s key tombs).1, .versions n (vRetain n s key tombs).2)
  | .expires th, _, _, ts => (decide (th ≤ ts), .expires th)
  | .any ds, key, tombs, ts =>
    ((Det.retainAll ds key tombs ts).1.any id, .any (Det.retainAll ds key tombs ts).2)
  | .all ds, key, tombs, ts =>
    ((Det.retainAll ds key tombs ts).1.all id, .all (Det.retainAll ds key tombs ts).2)
/-- every child is asked, in order -/
def Det.retainAll : List (Det K) → K → List Nat → Nat → List Bool × List (Det K)
  | [], _, _, _ => ([], [])
  | d :: ds, key, tombs, ts =>
    ((d.retain key tombs ts).1 :: (Det.retainAll ds key tombs ts).1,
     (d.retain key tombs ts).2 :: (Det.retainAll ds key tombs ts).2)
end

/-- `GarbageCollector::next` drained, for any determiner; `kb` is `key_backing` -/
def gcLoopD : List (Ent K) → K → List Nat → Det K → List (K × Nat)
  | [], _, _, _ => []
  | e :: rest, kb, tombs, d =>
    if e.tomb then gcLoopD rest e.key ((if kb = e.key then tombs else []) ++ [e.ts]) d
    else
      if (d.retain e.key (if kb = e.key then tombs else []) e.ts).1 then
        emit e.key (if kb = e.key then tombs else []) e.ts
          ++ gcLoopD rest e.key [] (d.retain e.key (if kb = e.key then tombs else []) e.ts).2
      else gcLoopD rest e.key [] (d.retain e.key (if kb = e.key then tombs else []) e.ts).2

/-- `policy.collector(cursor, now)` drained -/
def gcP (p : Policy) (now : Nat) (k0 : Option K) (m : List (Ent K)) : List (K × Nat) :=
  match m with
  | [] => []
  | e :: _ => gcLoopD m e.key [] (p.det now k0)

end

end Blue.Gc
