/-! `sst::gc::GarbageCollector::next` with the `versions = N` determiner
    (`VersionsDeterminer`), as a function from the merged, sorted input to the kept `(key, ts)`s. -/
namespace Blue.Gc

structure Ent (K : Type) where
  key : K
  ts : Nat
  tomb : Bool
deriving DecidableEq, Repr

/-- `VersionsDeterminer`: the key it last saw and the running count -/
structure VState (K : Type) where
  key : Option K
  count : Nat

variable {K : Type} [DecidableEq K]

/-- `VersionsDeterminer::retain` -/
def vRetain (n : Nat) (s : VState K) (key : K) (tombstones : List Nat) : Bool × VState K :=
  if s.key ≠ some key then
    if tombstones.isEmpty then (true, ⟨some key, 1⟩)
    else (decide (2 ≤ n), ⟨some key, 2⟩)
  else
    let c := if tombstones.isEmpty then s.count + 1 else s.count + 2
    (decide (c ≤ n), ⟨s.key, c⟩)

/-- `return_key`: the oldest of the tombstones above the value, then the value -/
def emit (key : K) (tombstones : List Nat) (ts : Nat) : List (K × Nat) :=
  match tombstones.getLast? with
  | some t => [(key, t), (key, ts)]
  | none => [(key, ts)]

/-- the collector's loop over the merged input; `kb` is `key_backing` -/
def gcLoop (n : Nat) : List (Ent K) → K → List Nat → VState K → List (K × Nat)
  | [], _, _, _ => []
  | e :: rest, kb, tombs, vs =>
    -- a different key restarts the outer loop: fresh tombstone list, new `key_backing`
    let tombs := if kb = e.key then tombs else []
    if e.tomb then gcLoop n rest e.key (tombs ++ [e.ts]) vs
    else
      let r := vRetain n vs e.key tombs
      if r.1 then emit e.key tombs e.ts ++ gcLoop n rest e.key [] r.2
      else gcLoop n rest e.key [] r.2

/-- `policy.collector(cursor, _)` drained -/
def gc (n : Nat) (m : List (Ent K)) : List (K × Nat) :=
  match m with
  | [] => []
  | e :: _ => gcLoop n m e.key [] ⟨none, 0⟩

/-- the same, one key's versions at a time (for the proofs and for reading) -/
def gcGroup (n : Nat) (key : K) : List (Ent K) → List Nat → Nat → List (K × Nat)
  | [], _, _ => []
  | e :: rest, tombs, count =>
    if e.tomb then gcGroup n key rest (tombs ++ [e.ts]) count
    else
      let c := if tombs.isEmpty then count + 1 else count + 2
      if c ≤ n then emit key tombs e.ts ++ gcGroup n key rest [] c
      else gcGroup n key rest [] c

end Blue.Gc
