import Blue.Model.Cursor
/-! `LazyCursor` (sst/src/lazy_cursor.rs): the table is opened at the first call that needs it, and
    dropped again whenever the cursor runs off either end. -/
namespace Blue.Cursor

inductive LPos (E : Type) where
  | first
  | last
  | inst (c : Ref E)

structure Lazy (E : Type) where
  /-- what `instantiate()` opens -/
  xs : List E
  pos : LPos E

namespace Lazy
variable {E : Type}

def establish (l : Lazy E) : Ref E := ⟨l.xs, 0⟩

def kv (l : Lazy E) : Option E :=
  match l.pos with
  | .inst c => c.kv
  | _ => none

def settle (l : Lazy E) (c : Ref E) (offEnd : LPos E) : Lazy E :=
  if c.kv.isNone then { l with pos := offEnd } else { l with pos := .inst c }

def step (l : Lazy E) : Op E → Lazy E
  | .first => { l with pos := .first }
  | .last => { l with pos := .last }
  | .seek p =>
    let c := match l.pos with | .inst c => c | _ => l.establish
    settle l (c.seek p) .last
  | .prev =>
    match l.pos with
    | .first => l
    | .last => settle l (l.establish.last.prev) .first
    | .inst c => settle l c.prev .first
  | .next =>
    match l.pos with
    | .first => settle l (l.establish.first.next) .last
    | .last => l
    | .inst c => settle l c.next .last

def run (l : Lazy E) : List (Op E) → List (Option E)
  | [] => []
  | op :: ops => (l.step op).kv :: run (l.step op) ops

end Lazy
end Blue.Cursor
