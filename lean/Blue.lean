import Blue.Model.Heap
import Blue.Model.Cursor
