import Blue.Driver.Util
import Blue.Driver.C20
import Blue.Driver.C07
import Blue.Driver.C06
import Blue.Driver.C09
import Blue.Driver.C17
import Blue.Driver.C18
import Blue.Driver.C12
import Blue.Driver.C19
import Blue.Driver.C10
import Blue.Driver.C13
import Blue.Driver.C15
import Blue.Driver.C05
import Blue.Driver.C16
import Blue.Driver.C11
import Blue.Driver.C14
import Blue.Driver.C04
import Blue.Driver.C02
import Blue.Driver.C08
import Blue.Driver.C01
open Blue.Driver

def dispatch (toks : List String) : String :=
  match toks with
  | "setsum" :: rest => Blue.Driver.C14.handle rest
  | "kvs" :: rest => Blue.Driver.C01.handle rest
  | "ledger" :: rest => Blue.Driver.C04.handle rest
  | "crash" :: rest => Blue.Driver.C02.handle rest
  | "refs" :: rest => Blue.Driver.C08.handle rest
  | "cur" :: rest => Blue.Driver.C11.handle rest
  | "tk1" :: rest => Blue.Driver.C16.K1.handle rest
  | "tk2" :: rest => Blue.Driver.C16.K2.handle rest
  | "gc" :: rest => Blue.Driver.C05.handleGc rest
  | "split" :: rest => Blue.Driver.C05.handleSplit rest
  | "wire" :: rest => Blue.Driver.C15.handleWire rest
  | "proto" :: rest => Blue.Driver.C15.handleProto rest
  | "mani" :: rest => Blue.Driver.C13.handle rest
  | "block" :: rest => Blue.Driver.C10.handle ("block" :: rest)
  | "sst" :: rest => Blue.Driver.C10.handle ("sst" :: rest)
  | "bloom" :: rest => Blue.Driver.C10.handle ("bloom" :: rest)
  | "bv" :: rest => Blue.Driver.C19.handleBv rest
  | "doc" :: rest => Blue.Driver.C19.handleDoc rest
  | "log" :: rest => Blue.Driver.C12.handle rest
  | "conclog" :: rest => Blue.Driver.C12.handleConc rest
  | "lru" :: _ | "wl" :: _ | "wcq" :: _ | "wake" :: _ => Blue.Driver.C18.handle toks
  | "skip" :: _ | "list" :: _ => Blue.Driver.C17.handle toks
  | "kvsw" :: rest => Blue.Driver.C06.handle rest
  | "snap" :: rest => Blue.Driver.C07.handle rest
  | "stall" :: rest => Blue.Driver.C20.handle rest
  | "vfy" :: rest => Blue.Driver.C08.Vfy.handleVfy rest
  | "orph" :: rest => Blue.Driver.C08.Vfy.handleOrph rest
  | "flink" :: rest => Blue.Driver.C08.Flink.handle rest
  | "vone" :: rest => Blue.Driver.C04.Vone.handle rest
  | _ => "bad-op"

partial def loop (h : IO.FS.Stream) (out : IO.FS.Stream) (grp : Option Blue.Driver.C09.Ctx) : IO Unit := do
  let line ← h.getLine
  if line.isEmpty then return ()
  let l := line.trimAscii.toString
  if l.startsWith "#" then
    out.putStrLn l
    loop h out grp
  else
    match tokens l with
    | "dmg" :: rest =>
      -- C09: the pristine file of a line group is the only state the driver keeps
      let (grp', answer) := Blue.Driver.C09.step grp rest
      out.putStrLn answer
      loop h out grp'
    | toks =>
      out.putStrLn (dispatch toks)
      loop h out grp

def main : IO Unit := do
  let i ← IO.getStdin
  let o ← IO.getStdout
  loop i o none
